package main

// Streams about the solver's protocol:
//   budget   (C15): every option combination (iterations 0/1/few/unlimited, duration 0/short, parallel runs
//                   below/at/above the CPU count, 0..n start solutions, plain/cancelled/deadline contexts,
//                   inputs without stops to plan): count `Iterated` events against the budget, read the
//                   grants through the verif hook, time the closing of the channel, catch panics.
//   detsched (C13): deterministic mode under forced schedules (delays injected through verifYield at the
//                   collector's update, at worker start, at the budget grab): the final solution must not
//                   depend on the schedule.
//   repro    (C12): same model, seed, options, single run: the sequence of delivered solutions and the final
//                   output must be identical across repetitions under schedule perturbation.

import (
	"context"
	"fmt"
	"math/rand"
	"runtime"
	"sort"
	"strings"
	"sync"
	"sync/atomic"
	"time"

	"github.com/nextmv-io/nextroute"
	"github.com/nextmv-io/nextroute/factory"
)

func init() {
	streams["budget"] = runBudget
	streams["detsched"] = runDetSched
	streams["repro"] = runRepro
}

type budgetCase struct {
	Case     *Case  `json:"case"`
	Iters    int    `json:"iters"`
	DurMs    int    `json:"dur_ms"`
	Runs     int    `json:"runs"`
	Starts   int    `json:"starts"`
	Det      bool   `json:"det"`
	Ctx      string `json:"ctx"`
	Requests []int  `json:"requests"`
	// Stress: the runs of the first cycle are lined up at the budget site (spin barrier at the worker_budget hook)
	// and released together, Trials times: the search for an over-grant when the grab is not one atomic step
	Stress bool `json:"stress,omitempty"`
	Trials int  `json:"trials,omitempty"`
	// SlowStart: the default parallel solver (the wrapper that constructs its own start solutions) on a model whose
	// move estimates are slow, Iterations 0: the channel must close shortly after the duration although constructing
	// one start solution alone takes several times as long
	SlowStart   bool `json:"slow_start,omitempty"`
	SlowSleepMs int  `json:"slow_sleep_ms,omitempty"`
}

// slowEstimate: a constraint that never rejects anything and takes a while to say so.
type slowEstimate struct {
	d     time.Duration
	calls *atomic.Int64
}

func (c slowEstimate) String() string { return "slow_estimate" }
func (c slowEstimate) EstimateIsViolated(nextroute.SolutionMoveStops) (bool, nextroute.StopPositionsHint) {
	c.calls.Add(1)
	time.Sleep(c.d)
	return false, nextroute.NoPositionsHint()
}

// solveSlowStart: time from the call of Solve until the channel is closed, and what a whole construction costs.
func solveSlowStart(model nextroute.Model, bc *budgetCase, calls *atomic.Int64) (closedAfter time.Duration, pan, errs string) {
	defer func() {
		if r := recover(); r != nil {
			pan = fmt.Sprint(r)
		}
	}()
	solver, err := nextroute.NewParallelSolver(model)
	if err != nil {
		return 0, "", err.Error()
	}
	ctx, cancel := ctxFor(bc.Ctx)
	defer cancel()
	t0 := time.Now()
	ch, err := solver.Solve(ctx, nextroute.ParallelSolveOptions{Iterations: bc.Iters, Duration: time.Duration(bc.DurMs) * time.Millisecond,
		ParallelRuns: bc.Runs, StartSolutions: bc.Starts, RunDeterministically: bc.Det})
	if err != nil {
		return 0, "", err.Error()
	}
	done := make(chan struct{})
	go func() {
		for range ch {
		}
		close(done)
	}()
	select {
	case <-done:
		return time.Since(t0), "", ""
	case <-time.After(60 * time.Second):
		return time.Since(t0), "", "not closed after 60s"
	}
}

func runBudget(o *Out, _ *rand.Rand, thorough bool) {
	o.Meta.Rule = "a case = generated instance × (iterations, duration, parallel runs, start solutions, deterministic, context kind, " +
		"per-run iteration requests); non-trivial = a case in which at least two runs were granted iterations or the budget " +
		"was exhausted mid-cycle; distinct by (iterations class, runs class, context, exhausted?)"
	ncases := 120
	if thorough {
		ncases = 1200
	}
	seen := map[string]bool{}
	ncpu := runtime.NumCPU()
	for ci := 0; ci < ncases; ci++ {
		rng := o.CaseRng(ci)
		c := genCase(rng, fullProfile(2+rng.Intn(7), 1+rng.Intn(3)))
		bc := &budgetCase{Case: c,
			Iters:  []int{0, 1, 7, 50, 333, 1000, -1}[rng.Intn(7)],
			DurMs:  []int{0, 40, 400, 3000}[rng.Intn(4)],
			Runs:   []int{1, 2, 3, ncpu, ncpu + 5, -1}[rng.Intn(6)],
			Starts: []int{0, 0, 1, 3}[rng.Intn(4)],
			Det:    rng.Intn(2) == 0,
			Ctx:    pick(rng, []string{"runstart", "plain", "cancelled", "deadline"})}
		if bc.Iters == -1 && bc.DurMs > 400 {
			bc.DurMs = 400 // unlimited iterations: the deadline ends the run
		}
		if bc.Iters == 0 && bc.DurMs > 400 {
			bc.DurMs = 400 // nobody iterates: the channel closes at the deadline
		}
		for k := 0; k < 64; k++ {
			bc.Requests = append(bc.Requests, []int{1, 3, 10, 40, 200}[rng.Intn(5)])
		}
		if ci%5 == 4 {
			k := 2 + rng.Intn(7)
			if k > ncpu {
				k = ncpu
			}
			n := []int{5, 20, 60}[rng.Intn(3)]
			*bc = budgetCase{Case: c, Iters: n, DurMs: 3000, Runs: k, Ctx: "runstart", Stress: true, Trials: 25,
				Requests: []int{n, n, n, n/2 + 1}}
		}
		if ci%10 == 9 {
			c = genCase(rng, Profile{MaxStops: 7 + rng.Intn(4), MaxVehicles: 2})
			*bc = budgetCase{Case: c, Iters: 0, DurMs: 150, Runs: 1 + rng.Intn(2), Starts: 1 + rng.Intn(2), Det: rng.Intn(2) == 0,
				Ctx: pick(rng, []string{"runstart", "plain"}), SlowStart: true, SlowSleepMs: 250}
		}
		if !o.BeginCase(ci, bc) {
			continue
		}
		o.Meta.Cases++
		bt, err, pan := buildCase(c)
		if pan != nil || err != nil {
			continue
		}
		if bc.SlowStart {
			var calls atomic.Int64
			if e := bt.model.AddConstraint(slowEstimate{d: time.Duration(bc.SlowSleepMs) * time.Millisecond, calls: &calls}); e != nil {
				continue
			}
			// what constructing ONE start solution costs when nothing interrupts it
			ref, e := nextroute.NewSolution(bt.model)
			if e != nil {
				continue
			}
			t0 := time.Now()
			_, e = nextroute.RandomSolutionConstruction(context.Background(), ref.Copy())
			full := time.Since(t0)
			if e != nil {
				continue
			}
			closedAfter, span, serr := solveSlowStart(bt.model, bc, &calls)
			o.Count("slow-start-cases")
			if span != "" {
				o.Violate(Violation{Property: "C15", Clause: "panic", Sig: "C15|panic|" + sigDetail(span), Detail: span, Replay: bc})
				continue
			}
			if serr != "" {
				o.Count("solve-error:" + errKind(fmt.Errorf("%s", serr)))
				continue
			}
			limit := time.Duration(bc.DurMs) * time.Millisecond
			o.Sample(map[string]any{"slow_start": true, "full_construction_ms": full.Milliseconds(), "closed_after_ms": closedAfter.Milliseconds(),
				"duration_ms": bc.DurMs, "starts": bc.Starts})
			// judged only when a full construction is long enough to tell the two apart
			if full > limit+1200*time.Millisecond {
				o.Count("slow-start-judged")
				if closedAfter > limit+900*time.Millisecond {
					o.Violate(Violation{Property: "C15", Clause: "closed-long-after-duration", Sig: "C15|closed-long-after-duration|start-solution-construction",
						Detail: fmt.Sprintf("duration %v, channel closed after %v; constructing one start solution uninterrupted takes %v (starts=%d, ctx=%s)",
							limit, closedAfter, full, bc.Starts, bc.Ctx), Replay: bc})
				}
			}
			continue
		}
		res := solveBudget(bt.model, bc)
		for t := 1; bc.Stress && t < bc.Trials && res.pan == "" && res.err == "" && res.iterated <= int64(bc.Iters); t++ {
			res = solveBudget(bt.model, bc)
			o.Count("stress-trials")
		}
		if res.pan != "" {
			o.Violate(Violation{Property: "C15", Clause: "panic", Sig: "C15|panic|" + sigDetail(res.pan), Detail: res.pan, Replay: bc})
			continue
		}
		if res.err != "" {
			o.Count("solve-error:" + errKind(fmt.Errorf("%s", res.err)))
			continue
		}
		budget := bc.Iters
		if budget >= 0 {
			if res.iterated > int64(budget) {
				o.Violate(Violation{Property: "C15", Clause: "more-iterations-than-budget", Sig: "C15|more-iterations-than-budget",
					Detail: fmt.Sprintf("%d Iterated events, budget %d", res.iterated, budget), Replay: bc})
			}
			sum := 0
			for _, g := range res.grants {
				sum += g
			}
			if sum > budget {
				o.Violate(Violation{Property: "C15", Clause: "grants-exceed-budget", Sig: "C15|grants-exceed-budget",
					Detail: fmt.Sprintf("grants %v sum %d, budget %d", res.grants, sum, budget), Replay: bc})
			}
			// the model: same requests in the order the workers asked → same total (order independent), each ≤ request
			reqs := res.requestsAsked
			line := fmt.Sprintf("par budget %d", budget)
			for _, r := range reqs {
				line += fmt.Sprintf(" %d", r)
			}
			if !res.cutShort {
				o.Op(line, fmt.Sprintf("par budget total %d", sum))
			} else {
				o.Count("grants-not-compared-run-cut-short")
			}
		}
		if res.reported >= 0 && res.reported != res.iterated {
			o.Violate(Violation{Property: "C15", Clause: "reported-count-differs", Sig: "C15|reported-count-differs",
				Detail: fmt.Sprintf("statistics report %d iterations, %d Iterated events", res.reported, res.iterated), Replay: bc})
		}
		// closing: deadline = duration (or the context's own deadline / cancellation, whichever comes first)
		limit := time.Duration(bc.DurMs) * time.Millisecond
		if bc.Ctx == "cancelled" && limit > 30*time.Millisecond {
			limit = 30 * time.Millisecond
		}
		if bc.Ctx == "deadline" && limit > 150*time.Millisecond {
			limit = 150 * time.Millisecond
		}
		slack := res.closedAfter - limit
		o.Count("closed")
		if !res.closed {
			o.Violate(Violation{Property: "C15", Clause: "channel-not-closed", Sig: "C15|channel-not-closed",
				Detail: fmt.Sprintf("result channel still open %v after the deadline of %v\n%s", res.closedAfter-limit, limit, res.dump), Replay: bc})
		} else if slack > 1500*time.Millisecond && res.iterated > 0 {
			o.Count("closed-late")
			o.Meta.Notes = append(o.Meta.Notes, fmt.Sprintf("closed %v after the deadline (iterations %d, runs %d)", slack, bc.Iters, bc.Runs))
		}
		granted := 0
		for _, g := range res.grants {
			if g > 0 {
				granted++
			}
		}
		exhausted := budget >= 0 && res.iterated >= int64(budget)
		key := fmt.Sprintf("i%d|r%d|%s|ex=%v", bc.Iters, bc.Runs, bc.Ctx, exhausted)
		if (granted >= 2 || exhausted) && !seen[key] {
			seen[key] = true
			o.Distinct("option-combinations")
		}
		o.Sample(map[string]any{"iters": bc.Iters, "dur_ms": bc.DurMs, "runs": bc.Runs, "starts": bc.Starts, "ctx": bc.Ctx,
			"iterated": res.iterated, "grants": res.grants, "closed_after_ms": res.closedAfter.Milliseconds()})
	}
}

type budgetResult struct {
	iterated       int64
	reported       int64
	grants         []int
	requestsAsked  []int
	closed         bool
	cutShort       bool
	closedAfter    time.Duration
	pan, err, dump string
}

func solveBudget(model nextroute.Model, bc *budgetCase) (res budgetResult) {
	res.reported = -1
	defer func() {
		if r := recover(); r != nil {
			res.pan = fmt.Sprint(r)
		}
	}()
	solver, err := nextroute.NewSkeletonParallelSolver(model)
	if err != nil {
		res.err = err.Error()
		return
	}
	solver.SetSolverFactory(nextroute.DefaultSolverFactory())
	var mu sync.Mutex
	asked := 0
	solver.SetSolveOptionsFactory(func(_ nextroute.ParallelSolveInformation) (nextroute.SolveOptions, error) {
		mu.Lock()
		defer mu.Unlock()
		n := bc.Requests[asked%len(bc.Requests)]
		asked++
		res.requestsAsked = append(res.requestsAsked, n)
		return nextroute.SolveOptions{Iterations: n, Duration: 30 * time.Second}, nil
	})
	var iterated atomic.Int64
	solver.SolveEvents().Iterated.Register(func(_ nextroute.SolveInformation) { iterated.Add(1) })
	var arrived atomic.Int64
	nextroute.VerifHook = func(site string, args ...any) {
		if site == "worker_budget" && bc.Stress {
			if n := arrived.Add(1); n <= int64(bc.Runs) {
				t0 := time.Now()
				for arrived.Load() < int64(bc.Runs) && time.Since(t0) < 100*time.Millisecond {
				}
			}
		}
		if site == "worker_grant" {
			mu.Lock()
			res.grants = append(res.grants, args[1].(int))
			mu.Unlock()
		}
	}
	defer func() { nextroute.VerifHook = nil }()
	var starts []nextroute.Solution
	for i := 0; i < bc.Starts; i++ {
		s, e := nextroute.NewSolution(model)
		if e != nil {
			res.err = e.Error()
			return
		}
		starts = append(starts, s)
	}
	ctx, cancel := ctxFor(bc.Ctx)
	defer cancel()
	t0 := time.Now()
	ch, err := solver.Solve(ctx, nextroute.ParallelSolveOptions{Iterations: bc.Iters, Duration: time.Duration(bc.DurMs) * time.Millisecond,
		ParallelRuns: bc.Runs, StartSolutions: 0, RunDeterministically: bc.Det}, starts...)
	if err != nil {
		res.err = err.Error()
		return
	}
	done := make(chan struct{})
	go func() {
		for s := range ch {
			if s.Error != nil {
				mu.Lock()
				res.err = s.Error.Error()
				mu.Unlock()
			}
		}
		close(done)
	}()
	limit := time.Duration(bc.DurMs)*time.Millisecond + 8*time.Second
	select {
	case <-done:
		res.closed = true
	case <-time.After(limit):
		buf := make([]byte, 1<<16)
		n := runtime.Stack(buf, true)
		res.dump = string(buf[:n])
		if len(res.dump) > 6000 {
			res.dump = res.dump[:6000]
		}
	}
	res.closedAfter = time.Since(t0)
	res.iterated = iterated.Load()
	// when the deadline or a cancellation ended the run, some workers never reached the counter
	res.cutShort = bc.Iters < 0 || res.iterated < int64(bc.Iters)
	return
}

// ------------------------------------------------------------------------------ schedules

// scheduleHook perturbs goroutine schedules: named sites sleep for a while.
func scheduleHook(delays map[string]time.Duration, everyNth map[string]int) func(site string, args ...any) {
	var mu sync.Mutex
	count := map[string]int{}
	return func(site string, _ ...any) {
		d, ok := delays[site]
		if !ok {
			return
		}
		mu.Lock()
		count[site]++
		n := count[site]
		mu.Unlock()
		if k := everyNth[site]; k > 1 && n%k != 0 {
			return
		}
		time.Sleep(d)
	}
}

var schedules = []struct {
	name   string
	delays map[string]time.Duration
	nth    map[string]int
}{
	{"plain", nil, nil},
	{"slow-collector", map[string]time.Duration{"agg_update": 25 * time.Millisecond}, nil},
	{"slow-odd-worker-start", map[string]time.Duration{"worker_start": 15 * time.Millisecond}, map[string]int{"worker_start": 2}},
	{"slow-budget-grab", map[string]time.Duration{"worker_budget": 10 * time.Millisecond}, map[string]int{"worker_budget": 2}},
	{"slow-send", map[string]time.Duration{"worker_send": 5 * time.Millisecond}, map[string]int{"worker_send": 3}},
}

func finalSig(b *Binding, sols []nextroute.Solution) string {
	if len(sols) == 0 {
		return "none"
	}
	s := snapOf(b, sols[len(sols)-1])
	f := strings.Fields(s)
	// routes and total score
	var r, sc string
	for _, x := range f {
		if strings.HasPrefix(x, "R=") {
			r = x
		}
		if strings.HasPrefix(x, "S=") {
			parts := strings.Split(x, ",")
			sc = parts[len(parts)-1]
		}
	}
	return r + " score=" + sc
}

func runDetSched(o *Out, _ *rand.Rand, thorough bool) {
	o.Meta.Rule = "a case = generated instance × (parallel runs, start solutions, iteration budget) in deterministic mode, solved " +
		"once per forced schedule; non-trivial = a case in which at least two cycles ran; distinct by (runs, feature set)"
	ncases := 12
	if thorough {
		ncases = 80
	}
	seen := map[string]bool{}
	for ci := 0; ci < ncases; ci++ {
		rng := o.CaseRng(ci)
		c := genCase(rng, fullProfile(5+rng.Intn(6), 1+rng.Intn(3)))
		c.Solve = &CSolve{Runs: []int{1, 1, 2, 3}[rng.Intn(4)], Starts: rng.Intn(2), Det: true, Iters: 800 + rng.Intn(1500)}
		if ci%2 == 1 {
			// many short runs on a larger instance: cycles end while the search is still improving, so the hand-over
			// of a cycle's last improvement to the next cycle is exercised
			c = genCase(rng, fullProfile(12+rng.Intn(8), 2+rng.Intn(2)))
			c.Solve = &CSolve{Runs: 1, Starts: rng.Intn(2), Det: true, Iters: 600 + rng.Intn(600), Slice: []int{10, 25, 60}[rng.Intn(3)]}
		}
		if ci%4 == 2 {
			// several runs, more start solutions than runs, equal slices: the cycles that only consume start solutions are
			// followed by cycles that start from the shared best — the per-cycle barrier must hold throughout
			runs := 2 + rng.Intn(2)
			c.Solve = &CSolve{Runs: runs, Starts: 2*runs + rng.Intn(2), Det: true, Iters: 40 * runs * (4 + rng.Intn(3)), Slice: 40}
		}
		if replayFile != "" {
			c = loadReplayCase(replayFile)
			ncases = 1
		}
		if !o.BeginCase(ci, c) {
			continue
		}
		o.Meta.Cases++
		bt, err, pan := buildCase(c)
		if pan != nil || err != nil {
			continue
		}
		results := map[string][]string{}
		performed := map[int64][]string{} // iterations performed → schedules
		for _, sch := range schedules {
			// a fresh model per schedule: the model's own random source advances with every solve
			bt, err, pan = buildCase(c)
			if pan != nil || err != nil {
				break
			}
			// protocol invariant for ONE parallel run: a run starts from the best of what the previous runs reported
			sh := scheduleHook(sch.delays, sch.nth)
			var mu sync.Mutex
			copied := map[int]float64{}   // run → score it started from (copy of the shared best)
			reported := map[int]float64{} // run → best score it reported
			// … and for any number of runs in deterministic mode: the cycles do not overlap — when a run of cycle k starts,
			// every run of an earlier cycle has ended (the dispatcher's barrier)
			doneRuns := map[int]bool{}
			barrier := ""
			nruns := c.Solve.Runs
			nextroute.VerifHook = func(site string, args ...any) {
				if site == "worker_copied" {
					mu.Lock()
					r := args[0].(int)
					copied[r] = args[1].(float64)
					if nruns >= 1 && barrier == "" {
						for r2 := range copied {
							if (r2-1)/nruns < (r-1)/nruns && !doneRuns[r2] {
								barrier = fmt.Sprintf("run %d (cycle %d) started while run %d (cycle %d) was still going", r, (r-1)/nruns+1, r2, (r2-1)/nruns+1)
							}
						}
					}
					mu.Unlock()
				}
				if site == "worker_done" {
					mu.Lock()
					doneRuns[args[0].(int)] = true
					mu.Unlock()
				}
				sh(site, args...)
			}
			var iterated atomic.Int64
			sols, _, serr, span := solveAllWith(bt.model, nextroute.ParallelSolveOptions{Iterations: c.Solve.Iters, Duration: 30 * time.Second,
				ParallelRuns: c.Solve.Runs, StartSolutions: c.Solve.Starts, RunDeterministically: true},
				func(ps nextroute.ParallelSolver) {
					if c.Solve.Slice > 0 {
						ps.SetSolveOptionsFactory(func(nextroute.ParallelSolveInformation) (nextroute.SolveOptions, error) {
							return nextroute.SolveOptions{Iterations: c.Solve.Slice, Duration: 30 * time.Second}, nil
						})
					}
					ps.SolveEvents().Iterated.Register(func(_ nextroute.SolveInformation) { iterated.Add(1) })
					ps.ParallelSolveEvents().NewSolution.Register(func(info nextroute.ParallelSolveInformation, s nextroute.Solution) {
						mu.Lock()
						if v, ok := reported[info.Run()]; !ok || s.Score() < v {
							reported[info.Run()] = s.Score()
						}
						mu.Unlock()
					})
				})
			nextroute.VerifHook = nil
			if span != nil || serr != nil {
				continue
			}
			if barrier != "" {
				o.Violate(Violation{Property: "C13", Clause: "cycles-overlap-in-deterministic-mode", Sig: fmt.Sprintf("C13|cycles-overlap-in-deterministic-mode|runs=%d|%s", c.Solve.Runs, sch.name),
					Detail: barrier, Replay: c})
			}
			o.Count("barrier-invariant-checked")
			if c.Solve.Runs == 1 {
				best := copied[1]
				for r := 1; ; r++ {
					cs, ok := copied[r]
					if !ok {
						break
					}
					if cs > best+1e-9 {
						o.Violate(Violation{Property: "C13", Clause: "run-started-from-stale-best", Sig: "C13|run-started-from-stale-best|runs=1|" + sch.name,
							Detail: fmt.Sprintf("run %d started from score %v although the previous runs had reported %v", r, cs, best), Replay: c})
						break
					}
					if v, ok := reported[r]; ok && v < best {
						best = v
					}
				}
				o.Count("protocol-invariant-checked")
			}
			sig := finalSig(bt.b, sols)
			results[sig] = append(results[sig], sch.name)
			performed[iterated.Load()] = append(performed[iterated.Load()], sch.name)
		}
		o.Op(fmt.Sprintf("detsched %d", ci), "detsched")
		if len(performed) > 1 {
			// how much work is done must not depend on the schedule either (the deadline is far away): a run that loses a part
			// of its slice because a sibling ended first is another thing than E20 (which run is granted which slice)
			var d []string
			for n, names := range performed {
				d = append(d, fmt.Sprintf("%d iterations: %s", n, strings.Join(names, "+")))
			}
			sort.Strings(d)
			o.Violate(Violation{Property: "C13", Clause: "iterations-performed-depend-on-schedule",
				Sig:    fmt.Sprintf("C13|iterations-performed-depend-on-schedule|runs=%d", c.Solve.Runs),
				Detail: fmt.Sprintf("budget %d: ", c.Solve.Iters) + strings.Join(d, " || "), Replay: c})
		}
		if len(results) > 1 {
			var d []string
			for sig, names := range results {
				d = append(d, strings.Join(names, "+")+": "+sig)
			}
			o.Violate(Violation{Property: "C13", Clause: "final-solution-depends-on-schedule",
				Sig:    fmt.Sprintf("C13|final-solution-depends-on-schedule|runs=%d", c.Solve.Runs),
				Detail: strings.Join(d, " || "), Replay: c})
		}
		key := fmt.Sprintf("r%d|%s", c.Solve.Runs, c.featureKey())
		if !seen[key] {
			seen[key] = true
			o.Distinct("runs-x-features")
		}
		o.Sample(map[string]any{"features": c.Features, "solve": c.Solve, "distinct_finals": len(results)})
		if replayFile != "" {
			break
		}
	}
}

func runRepro(o *Out, _ *rand.Rand, thorough bool) {
	o.Meta.Rule = "a case = generated instance (integer matrices → cost ties; multi-stop units with several allowed orders) solved " +
		"repeatedly with the same options and one parallel run, with and without schedule perturbation; non-trivial = a case " +
		"with a unit of several allowed orders; distinct by feature set"
	ncases, reps := 16, 3
	if thorough {
		ncases, reps = 150, 6
	}
	seen := map[string]bool{}
	for ci := 0; ci < ncases; ci++ {
		rng := o.CaseRng(ci)
		p := fullProfile(5+rng.Intn(7), 1+rng.Intn(3))
		p.ForceUnordered = ci%4 != 3
		div := 200
		if ci%2 == 0 {
			// many stops, few constraints, matrices with a handful of distinct values: many equally good moves, so
			// the tie-break draws decide which solution comes out
			p = Profile{MaxStops: 16 + rng.Intn(10), MaxVehicles: 2 + rng.Intn(2), Precedence: true, ForceUnordered: true, Capacity: rng.Intn(2) == 0, StatedTwice: true}
			div = 100
		}
		if ci%4 == 1 {
			// several capacity resources with quantities of both signs on a fleet of small and large vehicles, many ties: the
			// per-resource constraints are built by ranging over a map — any difference in what they answer (a hint, an
			// early exit) must not reach the random stream
			// (one resource is only ever loaded — its constraint is in the regime that answers
			// "skip the vehicle", the others are not: which of them is asked first decides whether the tie-break draws of
			// the remaining positions are made, E46)
			p = Profile{MaxStops: 10 + rng.Intn(8), MaxVehicles: 3, MultiRes: true, Capacity: true, OneSidedRes: true}
			div = 100
		}
		if ci%8 == 7 {
			// more than twenty stops that share a coordinate (all generated stops lie on one parallel): the un-plan operator
			// walks the twenty closest stops of a stop, found through a k-d tree whose pivots come from a process-wide random
			// source — the list must be the same for every model built from the same input (E43)
			p = Profile{MaxStops: 60, MinStopCount: 40, MaxVehicles: 3}
		}
		c := genCase(rng, p)
		// ties: collapse the matrices to few distinct values
		for _, m := range [][][]int{c.Dur, c.Dist} {
			for i := range m {
				for j := range m[i] {
					m[i][j] = (m[i][j] / div) * div
					if div == 100 && i != j {
						m[i][j] = 60 * (1 + m[i][j]/100)
					}
				}
			}
		}
		c.Solve = &CSolve{Runs: 1, Starts: rng.Intn(2), Det: rng.Intn(2) == 0, Iters: 300 + rng.Intn(500),
			Mode: []string{"single", "parallel-norestart", "parallel"}[ci%3]}
		if p.MultiRes && c.Solve.Mode == "parallel" {
			// (a difference in the as-shipped parallel mode would be put down to the listed finding E25)
			c.Solve.Mode = "single"
		}
		if ci%8 == 7 {
			c.Grid = true
			c.feature("stops-on-a-grid")
			// the default solver options (un-plan counts that grow): the island operator walks far down the list
			c.Solve.Iters = 1200 + rng.Intn(600)
			c.Solve.Det = true
			if ci%16 == 7 {
				c.Solve.Mode = "parallel"
			} else {
				// the single solver with un-plan counts that grow (no known finding absorbs a difference here)
				c.Solve.Mode = "single"
				c.feature("growing-unplan-count")
			}
		}
		if ci%3 == 1 {
			// several random start solutions (built by helper goroutines of NewParallelSolver): their seeds must not depend on
			// which helper gets to the shared empty solution first
			c.Solve.Starts = 2 + rng.Intn(3)
		}
		if replayFile != "" {
			c = loadReplayCase(replayFile)
			ncases = 1
		}
		if !o.BeginCase(ci, c) {
			continue
		}
		o.Meta.Cases++
		mode := c.Solve.Mode
		if mode == "" {
			mode = "parallel"
		}
		o.Count("repro-mode:" + mode)
		results := map[string]int{}
		var first, firstClosest string
		closestDiffer := 0
		var perRep, sigs []string
		nreps := reps
		if p.MultiRes {
			nreps = reps * 4 // map order varies from build to build: more builds of the same input
		}
		for _, f := range c.Features {
			if f == "relation-stated-twice" && nreps < reps*2 {
				nreps = reps * 2 // likewise: a map over few relations repeats its order often
			}
		}
		for rep := 0; rep < nreps; rep++ {
			// a fresh model per repetition: "the same model" means the same input and options
			bt, err, pan := buildCase(c)
			if pan != nil || err != nil {
				o.Count("repro-build-failed:" + fmt.Sprint(pan != nil))
				if err != nil {
					o.Count("repro-build-error:" + errKind(err))
					if len(o.Meta.Notes) < 5 {
						o.Meta.Notes = append(o.Meta.Notes, "repro build error: "+err.Error())
					}
				}
				break
			}
			// what the un-plan operators walk: every stop's list of closest stops, in the order the model hands it out
			if cd := closestDigest(bt.model); rep == 0 {
				firstClosest = cd
			} else if cd != firstClosest {
				closestDiffer++
			}
			switch rep % 3 {
			case 1:
				// the producer of stop orders is slowed down: a consumer that shared its random source would draw first
				nextroute.VerifHook = scheduleHook(map[string]time.Duration{"seq_perm": 40 * time.Microsecond}, nil)
			case 2:
				nextroute.VerifHook = scheduleHook(map[string]time.Duration{"worker_send": 2 * time.Millisecond}, nil)
			}
			if rep%3 != 0 && c.Solve.Starts >= 2 {
				// whoever copies a solution first is held back longest (the first eight copies): copies that are made one
				// after the other by one goroutine are only delayed, copies made by goroutines that race for the same source
				// solution change places
				bt.model.AddSolutionObserver(&copyDelay{step: time.Duration(100*(rep%3)) * time.Microsecond})
			}
			var sols []nextroute.Solution
			var serr error
			var span any
			popt := nextroute.ParallelSolveOptions{Iterations: c.Solve.Iters, Duration: 30 * time.Second,
				ParallelRuns: 1, StartSolutions: c.Solve.Starts, RunDeterministically: c.Solve.Det}
			switch mode {
			case "single":
				opt := singleSolverOptions()
				if c.Grid {
					opt.Unplan = nextroute.IntParameterOptions{StartValue: 2, DeltaAfterIterations: 25, Delta: 2, MinValue: 2, MaxValue: 20, SnapBackAfterImprovement: true, Zigzag: true}
				}
				sols, serr, span = solveSingleOpt(bt.model, c.Solve.Iters, rep%3 == 2, opt)
			case "parallel-norestart":
				sols, _, serr, span = solveAllWith(bt.model, popt, func(ps nextroute.ParallelSolver) {
					ps.SetSolverFactory(func(_ nextroute.ParallelSolveInformation, s nextroute.Solution) (nextroute.Solver, error) {
						opt := singleSolverOptions()
						never := 1000000000
						opt.Restart = nextroute.IntParameterOptions{StartValue: never, DeltaAfterIterations: never, Delta: 0, MinValue: never, MaxValue: never, SnapBackAfterImprovement: true, Zigzag: true}
						return nextroute.NewSolver(s.Model(), opt)
					})
				})
			default:
				sols, _, serr, span = solveAll(bt.model, popt)
			}
			nextroute.VerifHook = nil
			if span != nil || serr != nil {
				o.Count("repro-solve-failed")
				break
			}
			var seq []string
			for _, s := range sols {
				seq = append(seq, finalSig(bt.b, []nextroute.Solution{s}))
			}
			out := factoryOutput(sols)
			sig := strings.Join(seq, " ; ") + " ## " + out
			if rep == 0 {
				first = sig
			}
			results[sig]++
			perRep = append(perRep, fmt.Sprintf("%s=%d", []string{"plain", "slow-seq_perm", "slow-consumer"}[rep%3], indexOf(&sigs, sig)))
		}
		o.Op(fmt.Sprintf("repro %d", ci), "repro")
		if len(results) > 1 {
			var other string
			for s := range results {
				if s != first {
					other = s
				}
			}
			// which perturbations gave a result different from the unperturbed run
			var devs []string
			for _, pr := range perRep {
				if !strings.HasSuffix(pr, "=0") && !strings.HasPrefix(pr, "plain") {
					d := pr[:strings.Index(pr, "=")]
					if len(devs) == 0 || devs[len(devs)-1] != d {
						devs = append(devs, d)
					}
				}
			}
			devs = uniq(devs)
			if len(devs) == 0 {
				devs = []string{"plain"}
			}
			o.Violate(Violation{Property: "C12", Clause: "results-differ-between-runs", Sig: "C12|results-differ-between-runs|" + mode + "|" + strings.Join(devs, "+"),
				Detail: fmt.Sprintf("%d distinct results in %d runs (%s); first: %.300s || other: %.300s", len(results), reps, strings.Join(perRep, " "), first, other), Replay: c})
		}
		if closestDiffer > 0 {
			o.Violate(Violation{Property: "C12", Clause: "closest-stops-differ-between-builds", Sig: "C12|closest-stops-differ-between-builds|" + mode,
				Detail: fmt.Sprintf("%d of %d further models built from the same input hand out a different order of closest stops than the first (the un-plan operators walk these lists)", closestDiffer, len(perRep)-1), Replay: c})
		}
		multi := false
		for _, f := range c.Features {
			if f == "fork" || f == "diamond" {
				multi = true
			}
		}
		if multi && !seen[c.featureKey()] {
			seen[c.featureKey()] = true
			o.Distinct("feature-sets-with-unordered-units")
		}
		o.Sample(map[string]any{"features": c.Features, "solve": c.Solve, "distinct_results": len(results)})
		if replayFile != "" {
			break
		}
	}
}

// closestDigest: for every stop of the model the indices of its closest stops in the order ClosestStops returns them.
func closestDigest(m nextroute.Model) string {
	var sb strings.Builder
	for _, st := range m.Stops() {
		cs, err := st.ClosestStops()
		if err != nil {
			sb.WriteString("err;")
			continue
		}
		for _, x := range cs {
			fmt.Fprintf(&sb, "%d,", x.Index())
		}
		sb.WriteString(";")
	}
	return sb.String()
}

// factoryOutput: the formatted last solution without timing fields.
func factoryOutput(sols []nextroute.Solution) string {
	if len(sols) == 0 {
		return ""
	}
	out := factory.ToSolutionOutput(sols[len(sols)-1])
	return fmt.Sprintf("%v|%v", out.Objective.Value, len(out.Unplanned))
}

var _ = context.Background

func indexOf(l *[]string, s string) int {
	for i, x := range *l {
		if x == s {
			return i
		}
	}
	*l = append(*l, s)
	return len(*l) - 1
}

// solveSingle: the single solver as shipped (unplan, plan, restart after 150 iterations without improvement), read by a
// plain consumer — optionally a slow one.
func solveSingle(model nextroute.Model, iters int, slowConsumer bool) (sols []nextroute.Solution, err error, pan any) {
	return solveSingleOpt(model, iters, slowConsumer, singleSolverOptions())
}

func solveSingleOpt(model nextroute.Model, iters int, slowConsumer bool, opt nextroute.SolverOptions) (sols []nextroute.Solution, err error, pan any) {
	defer func() {
		if r := recover(); r != nil {
			pan = r
		}
	}()
	solver, e := nextroute.NewSolver(model, opt)
	if e != nil {
		return nil, e, nil
	}
	start, e := nextroute.NewSolution(model)
	if e != nil {
		return nil, e, nil
	}
	ctx, cancel := solveCtx(60 * time.Second)
	defer cancel()
	ch, e := solver.Solve(ctx, nextroute.SolveOptions{Iterations: iters, Duration: 30 * time.Second}, start)
	if e != nil {
		return nil, e, nil
	}
	for s := range ch {
		if s.Error != nil {
			return sols, s.Error, nil
		}
		if slowConsumer {
			time.Sleep(2 * time.Millisecond)
		}
		sols = append(sols, s.Solution)
	}
	return sols, nil, nil
}

// copyDelay: a solution observer that only sleeps when a solution is about to be copied — the k-th copy (k < 8) sleeps
// (8-k) steps.
type copyDelay struct {
	recorder
	n    atomic.Int64
	step time.Duration
}

func (d *copyDelay) OnCopySolution(nextroute.Solution) {
	k := d.n.Add(1)
	if k <= 8 {
		time.Sleep(time.Duration(9-k) * d.step)
	}
}
