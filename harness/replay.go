package main

import (
	"encoding/json"
	"os"
)

// loadReplayCase reads a replay file written by tools/check (a violation record whose "replay"
// member is a Case, or a bare Case).
func loadReplayCase(path string) *Case {
	b, err := os.ReadFile(path)
	must(err)
	var wrap struct {
		Replay json.RawMessage `json:"replay"`
	}
	c := &Case{}
	if json.Unmarshal(b, &wrap) == nil && len(wrap.Replay) > 0 {
		var inner struct {
			Case json.RawMessage `json:"case"`
		}
		if json.Unmarshal(wrap.Replay, &inner) == nil && len(inner.Case) > 0 {
			must(json.Unmarshal(inner.Case, c))
			return c
		}
		must(json.Unmarshal(wrap.Replay, c))
		return c
	}
	must(json.Unmarshal(b, c))
	return c
}
