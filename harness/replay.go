package main

import (
	"encoding/json"
	"os"
)

// loadReplayCase reads a replay file written by tools/check (a violation record whose "replay"
// member is a Case, or a bare Case).
func loadReplayCase(path string) *Case {
	b, err := os.ReadFile(path)
	must(err)
	var wrap struct {
		Replay json.RawMessage `json:"replay"`
	}
	c := &Case{}
	if json.Unmarshal(b, &wrap) == nil && len(wrap.Replay) > 0 {
		var inner struct {
			Case json.RawMessage `json:"case"`
		}
		if json.Unmarshal(wrap.Replay, &inner) == nil && len(inner.Case) > 0 {
			must(json.Unmarshal(inner.Case, c))
			return c
		}
		must(json.Unmarshal(wrap.Replay, c))
		return c
	}
	must(json.Unmarshal(b, c))
	return c
}

// loadReplayHist reads a history case (instance + user constraint + seed) from a replay file.
func loadReplayHist(path string) *histCase {
	b, err := os.ReadFile(path)
	must(err)
	var wrap struct {
		Replay json.RawMessage `json:"replay"`
	}
	hc := &histCase{}
	if json.Unmarshal(b, &wrap) == nil && len(wrap.Replay) > 0 {
		var inner struct {
			Case json.RawMessage `json:"case"`
		}
		if json.Unmarshal(wrap.Replay, &inner) == nil && len(inner.Case) > 0 {
			var probe struct {
				Case json.RawMessage `json:"case"`
			}
			if json.Unmarshal(inner.Case, &probe) == nil && len(probe.Case) > 0 {
				must(json.Unmarshal(inner.Case, hc))
				return hc
			}
		}
		must(json.Unmarshal(wrap.Replay, hc))
		if hc.Case != nil {
			return hc
		}
	}
	must(json.Unmarshal(b, hc))
	return hc
}

// loadReplayInto reads `{"replay": X}` (or a bare X, or {"replay":{"case":X}}) into v.
func loadReplayInto(path string, v any) {
	b, err := os.ReadFile(path)
	must(err)
	var wrap struct {
		Replay json.RawMessage `json:"replay"`
	}
	if json.Unmarshal(b, &wrap) == nil && len(wrap.Replay) > 0 {
		var inner struct {
			Case  json.RawMessage `json:"case"`
			Index *int            `json:"index"`
		}
		if json.Unmarshal(wrap.Replay, &inner) == nil && len(inner.Case) > 0 && inner.Index != nil {
			must(json.Unmarshal(inner.Case, v))
			return
		}
		must(json.Unmarshal(wrap.Replay, v))
		return
	}
	must(json.Unmarshal(b, v))
}

// loadReplay reads any case type from a replay file (violation record with "replay", possibly wrapped
// once more in {"case": …}, or the bare case).
func loadReplay(c any) {
	b, err := os.ReadFile(replayFile)
	must(err)
	var wrap struct {
		Replay json.RawMessage `json:"replay"`
	}
	if json.Unmarshal(b, &wrap) == nil && len(wrap.Replay) > 0 {
		var inner struct {
			Case json.RawMessage `json:"case"`
		}
		if json.Unmarshal(wrap.Replay, &inner) == nil && len(inner.Case) > 0 {
			must(json.Unmarshal(inner.Case, c))
			return
		}
		must(json.Unmarshal(wrap.Replay, c))
		return
	}
	must(json.Unmarshal(b, c))
}
