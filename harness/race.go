package main

// Streams built with the race detector (`go build -race`):
//   copyrace (C11): a solution and its copy (and copies of copies) are mutated concurrently from
//                   different goroutines by random histories; afterwards each side must equal the
//                   same history run alone (independence), and the detector must stay silent;
//   parrace  (C14): the parallel solver and the single solver are driven on generated inputs with
//                   several parallel runs, start solutions and feature mixes (each activates
//                   different lazily initialised caches).
// The detector writes its reports to files (GORACE=log_path=…); the parent process turns every
// report into a violation whose signature is the pair of source locations involved.

import (
	"context"
	"fmt"
	"math/rand"
	"os"
	"path/filepath"
	"regexp"
	"sort"
	"strings"
	"sync"
	"time"

	"github.com/nextmv-io/nextroute"
)

func init() {
	streams["copyrace"] = runCopyRace
	streams["parrace"] = runParRace
}

// raceReports reads the detector's log files written by this (child) process family.
func raceReports(dir string) []string {
	files, _ := filepath.Glob(filepath.Join(dir, "race.*"))
	var out []string
	for _, f := range files {
		b, err := os.ReadFile(f)
		if err != nil {
			continue
		}
		for _, rep := range strings.Split(string(b), "==================") {
			if strings.Contains(rep, "DATA RACE") {
				out = append(out, rep)
			}
		}
	}
	return out
}

var frameRe = regexp.MustCompile(`(?m)^\s+(/repo/|/[^\s]*nextroute[^\s]*/)([^\s:]+\.go):(\d+)`)

// raceSig: the first nextroute source location of each of the two conflicting accesses.
func raceSig(rep string) string {
	parts := regexp.MustCompile(`(?m)^(Previous |)(read|write|Read|Write|atomic) .*$`).Split(rep, -1)
	var locs []string
	for _, p := range parts[1:] {
		if m := frameRe.FindStringSubmatch(p); m != nil {
			locs = append(locs, m[2]+":"+m[3])
		}
		if len(locs) == 2 {
			break
		}
	}
	sort.Strings(locs)
	if len(locs) == 0 {
		return "unknown"
	}
	return strings.Join(locs, "~")
}

func collectRaces(o *Out, prop string, replay any) {
	seen := map[string]bool{}
	for _, rep := range raceReports(o.dir) {
		sig := raceSig(rep)
		if seen[sig] {
			continue
		}
		seen[sig] = true
		if len(rep) > 3000 {
			rep = rep[:3000]
		}
		o.Violate(Violation{Property: prop, Clause: "data-race", Sig: prop + "|data-race|" + sig, Detail: rep, Replay: replay})
	}
	o.CountN("race-reports-distinct", len(seen))
}

func randomOps(rng *rand.Rand, sol nextroute.Solution, n int) {
	ctx := context.Background()
	for i := 0; i < n; i++ {
		switch rng.Intn(3) {
		case 0:
			// root units made of stops only: the listed findings about units of units (E2, E4, E16) must not
			// be produced inside these helper histories
			unpl := unitsOf(sol, func(u nextroute.SolutionPlanUnit) bool {
				_, isStops := u.(nextroute.SolutionPlanStopsUnit)
				return isStops && !u.IsPlanned() && !u.IsFixed()
			})
			if len(unpl) > 0 {
				mv := sol.BestMove(ctx, unpl[rng.Intn(len(unpl))])
				mv.Execute(ctx)
			}
		case 1:
			pl := unitsOf(sol, func(u nextroute.SolutionPlanUnit) bool {
				_, isStops := u.(nextroute.SolutionPlanStopsUnit)
				return isStops && u.IsPlanned()
			})
			if len(pl) > 0 {
				pl[rng.Intn(len(pl))].UnPlan()
			}
		default:
			vs := sol.Vehicles()
			vs[rng.Intn(len(vs))].Unplan()
		}
	}
}

func runCopyRace(o *Out, _ *rand.Rand, thorough bool) {
	o.Meta.Rule = "a case = generated instance; the solution is planned a little, copied twice, and the three solutions are " +
		"mutated concurrently by seeded random histories; non-trivial = a case in which all three goroutines changed " +
		"their solution; distinct by feature set"
	ncases := 60
	if thorough {
		ncases = 600
	}
	seen := map[string]bool{}
	for ci := 0; ci < ncases; ci++ {
		rng := o.CaseRng(ci)
		c := genCase(rng, fullProfile(3+rng.Intn(8), 1+rng.Intn(3)))
		if !o.BeginCase(ci, c) {
			continue
		}
		o.Meta.Cases++
		bt, err, pan := buildCase(c)
		if pan != nil || err != nil {
			continue
		}
		sol, err := nextroute.NewSolution(bt.model)
		if err != nil {
			continue
		}
		randomOps(rand.New(rand.NewSource(1)), sol, 6)
		c1 := sol.Copy()
		c2 := c1.Copy()
		before := []string{snapOf(bt.b, sol), snapOf(bt.b, c1), snapOf(bt.b, c2)}
		if !snapSame(before[0], before[1]) || !snapSame(before[1], before[2]) {
			o.Violate(Violation{Property: "C11", Clause: "copy-differs-from-original", Sig: "C11|copy-differs-from-original|-", Detail: diffSnap(before[0], before[1]), Replay: c})
		}
		// reference: the same histories run alone, one after the other, on fresh copies
		seeds := []int64{rng.Int63(), rng.Int63(), rng.Int63()}
		refs := make([]string, 3)
		// the same operation choices AND the same random stream inside the solution
		for i, s := range []nextroute.Solution{sol, c1, c2} {
			r := s.Copy()
			r.SetRandom(rand.New(rand.NewSource(seeds[i] + 1)))
			randomOps(rand.New(rand.NewSource(seeds[i])), r, 25)
			refs[i] = snapOf(bt.b, r)
		}
		var wg sync.WaitGroup
		for i, s := range []nextroute.Solution{sol, c1, c2} {
			wg.Add(1)
			s.SetRandom(rand.New(rand.NewSource(seeds[i] + 1)))
			go func(i int, s nextroute.Solution) {
				defer wg.Done()
				randomOps(rand.New(rand.NewSource(seeds[i])), s, 25)
			}(i, s)
		}
		wg.Wait()
		changed := 0
		for i, s := range []nextroute.Solution{sol, c1, c2} {
			got := snapOf(bt.b, s)
			if !snapSame(got, before[i]) {
				changed++
			}
			if !snapSame(got, refs[i]) {
				o.Violate(Violation{Property: "C11", Clause: "concurrent-history-differs-from-isolated-history",
					Sig: "C11|concurrent-history-differs-from-isolated-history|-", Detail: diffSnap(refs[i], got), Replay: c})
			}
		}
		o.Op(fmt.Sprintf("copyrace %d", ci), "copyrace")
		if changed == 3 && !seen[c.featureKey()] {
			seen[c.featureKey()] = true
			o.Distinct("feature-sets-all-three-mutated")
		}
		o.Sample(map[string]any{"features": c.Features, "changed": changed})
	}
	collectRaces(o, "C11", "see stream copyrace, seed in evidence")
}

func runParRace(o *Out, _ *rand.Rand, thorough bool) {
	o.Meta.Rule = "a case = generated instance × (parallel runs 2..4, start solutions 0..3, deterministic or not) solved by the " +
		"parallel solver, and by the single solver; non-trivial = a case in which at least two runs delivered a solution; " +
		"distinct by feature set"
	ncases := 40
	if thorough {
		ncases = 400
	}
	seen := map[string]bool{}
	for ci := 0; ci < ncases; ci++ {
		rng := o.CaseRng(ci)
		c := genCase(rng, fullProfile(4+rng.Intn(8), 1+rng.Intn(3)))
		c.Solve = &CSolve{Runs: 2 + rng.Intn(3), Starts: rng.Intn(4), Det: rng.Intn(2) == 0, Iters: 300 + rng.Intn(600)}
		if !o.BeginCase(ci, c) {
			continue
		}
		o.Meta.Cases++
		bt, err, pan := buildCase(c)
		if pan != nil || err != nil {
			continue
		}
		opt := nextroute.ParallelSolveOptions{Iterations: c.Solve.Iters, Duration: 20 * time.Second, ParallelRuns: c.Solve.Runs,
			StartSolutions: c.Solve.Starts, RunDeterministically: c.Solve.Det}
		if ci%4 == 0 {
			// the model's lazily filled caches, first used by several goroutines at once — what the un-plan operators
			// of several solver runs do (they call the same function), without waiting for the runs to collide by chance
			// (E27: the closest-stops cache was read in front of its lock)
			var wg sync.WaitGroup
			for g := 0; g < c.Solve.Runs+1; g++ {
				wg.Add(1)
				go func() {
					defer wg.Done()
					for _, st := range bt.model.Stops() {
						_, _ = st.ClosestStops()
					}
				}()
			}
			wg.Wait()
			o.Count("lazy-cache-first-use-probes")
		}
		sols, _, serr, span := solveAll(bt.model, opt)
		if span != nil || serr != nil {
			continue
		}
		o.Op(fmt.Sprintf("parrace %d", ci), "parrace")
		if len(sols) >= 2 && !seen[c.featureKey()] {
			seen[c.featureKey()] = true
			o.Distinct("feature-sets-with-several-deliveries")
		}
		for _, f := range c.Features {
			o.Count("feature:" + f)
		}
		o.Sample(map[string]any{"features": c.Features, "solve": c.Solve, "delivered": len(sols)})
	}
	collectRaces(o, "C14", "see stream parrace, seed in evidence")
}
