package main

// Streams built with the race detector (`go build -race`):
//   copyrace (C11): a solution and its copy (and copies of copies) are mutated concurrently from
//                   different goroutines by random histories; afterwards each side must equal the
//                   same history run alone (independence), and the detector must stay silent;
//   parrace  (C14): the parallel solver and the single solver are driven on generated inputs with
//                   several parallel runs, start solutions and feature mixes (each activates
//                   different lazily initialised caches).
// The detector writes its reports to files (GORACE=log_path=…); the parent process turns every
// report into a violation whose signature is the pair of source locations involved.

import (
	"context"
	"fmt"
	"math/rand"
	"os"
	"path/filepath"
	"regexp"
	"sort"
	"strings"
	"sync"
	"time"

	"github.com/nextmv-io/nextroute"
)

func init() {
	streams["copyrace"] = runCopyRace
	streams["parrace"] = runParRace
}

// raceReports reads the detector's log files written by this (child) process family.
func raceReports(dir string) []string {
	files, _ := filepath.Glob(filepath.Join(dir, "race.*"))
	var out []string
	for _, f := range files {
		b, err := os.ReadFile(f)
		if err != nil {
			continue
		}
		for _, rep := range strings.Split(string(b), "==================") {
			if strings.Contains(rep, "DATA RACE") {
				out = append(out, rep)
			}
		}
	}
	return out
}

var frameRe = regexp.MustCompile(`(?m)^\s+(/repo/|/[^\s]*nextroute[^\s]*/)([^\s:]+\.go):(\d+)`)

// raceSig: the first nextroute source location of each of the two conflicting accesses.
func raceSig(rep string) string {
	parts := regexp.MustCompile(`(?m)^(Previous |)(read|write|Read|Write|atomic) .*$`).Split(rep, -1)
	var locs []string
	for _, p := range parts[1:] {
		if m := frameRe.FindStringSubmatch(p); m != nil {
			locs = append(locs, m[2]+":"+m[3])
		}
		if len(locs) == 2 {
			break
		}
	}
	sort.Strings(locs)
	if len(locs) == 0 {
		return "unknown"
	}
	return strings.Join(locs, "~")
}

// raceClause: the clause under which collectRaces files the reports of the running stream.
var raceClause = "data-race"

func collectRaces(o *Out, prop string, replay any) {
	seen := map[string]bool{}
	for _, rep := range raceReports(o.dir) {
		sig := raceSig(rep)
		if seen[sig] {
			continue
		}
		seen[sig] = true
		if len(rep) > 3000 {
			rep = rep[:3000]
		}
		o.Violate(Violation{Property: prop, Clause: raceClause, Sig: prop + "|" + raceClause + "|" + sig, Detail: rep, Replay: replay})
	}
	o.CountN("race-reports-distinct", len(seen))
}

func randomOps(rng *rand.Rand, sol nextroute.Solution, n int) {
	ctx := context.Background()
	for i := 0; i < n; i++ {
		switch rng.Intn(3) {
		case 0:
			// root units made of stops only: the listed findings about units of units (E2, E4, E16) must not
			// be produced inside these helper histories
			unpl := unitsOf(sol, func(u nextroute.SolutionPlanUnit) bool {
				_, isStops := u.(nextroute.SolutionPlanStopsUnit)
				return isStops && !u.IsPlanned() && !u.IsFixed()
			})
			if len(unpl) > 0 {
				mv := sol.BestMove(ctx, unpl[rng.Intn(len(unpl))])
				mv.Execute(ctx)
			}
		case 1:
			pl := unitsOf(sol, func(u nextroute.SolutionPlanUnit) bool {
				_, isStops := u.(nextroute.SolutionPlanStopsUnit)
				return isStops && u.IsPlanned()
			})
			if len(pl) > 0 {
				pl[rng.Intn(len(pl))].UnPlan()
			}
		default:
			vs := sol.Vehicles()
			vs[rng.Intn(len(vs))].Unplan()
		}
	}
}

func runCopyRace(o *Out, _ *rand.Rand, thorough bool) {
	o.Meta.Rule = "a case = generated instance; the solution is planned a little, copied twice, and the three solutions are " +
		"mutated concurrently by seeded random histories; non-trivial = a case in which all three goroutines changed " +
		"their solution; distinct by feature set"
	ncases := 60
	if thorough {
		ncases = 600
	}
	seen := map[string]bool{}
	for ci := 0; ci < ncases; ci++ {
		rng := o.CaseRng(ci)
		c := genCase(rng, fullProfile(3+rng.Intn(8), 1+rng.Intn(3)))
		if !o.BeginCase(ci, c) {
			continue
		}
		o.Meta.Cases++
		bt, err, pan := buildCase(c)
		if pan != nil || err != nil {
			continue
		}
		sol, err := nextroute.NewSolution(bt.model)
		if err != nil {
			continue
		}
		randomOps(rand.New(rand.NewSource(1)), sol, 6)
		c1 := sol.Copy()
		c2 := c1.Copy()
		before := []string{snapOf(bt.b, sol), snapOf(bt.b, c1), snapOf(bt.b, c2)}
		if !snapSame(before[0], before[1]) || !snapSame(before[1], before[2]) {
			o.Violate(Violation{Property: "C11", Clause: "copy-differs-from-original", Sig: "C11|copy-differs-from-original|-", Detail: diffSnap(before[0], before[1]), Replay: c})
		}
		// reference: the same histories run alone, one after the other, on fresh copies
		seeds := []int64{rng.Int63(), rng.Int63(), rng.Int63()}
		refs := make([]string, 3)
		// the same operation choices AND the same random stream inside the solution
		for i, s := range []nextroute.Solution{sol, c1, c2} {
			r := s.Copy()
			r.SetRandom(rand.New(rand.NewSource(seeds[i] + 1)))
			randomOps(rand.New(rand.NewSource(seeds[i])), r, 25)
			refs[i] = snapOf(bt.b, r)
		}
		var wg sync.WaitGroup
		for i, s := range []nextroute.Solution{sol, c1, c2} {
			wg.Add(1)
			s.SetRandom(rand.New(rand.NewSource(seeds[i] + 1)))
			go func(i int, s nextroute.Solution) {
				defer wg.Done()
				randomOps(rand.New(rand.NewSource(seeds[i])), s, 25)
			}(i, s)
		}
		wg.Wait()
		changed := 0
		for i, s := range []nextroute.Solution{sol, c1, c2} {
			got := snapOf(bt.b, s)
			if !snapSame(got, before[i]) {
				changed++
			}
			if !snapSame(got, refs[i]) {
				o.Violate(Violation{Property: "C11", Clause: "concurrent-history-differs-from-isolated-history",
					Sig: "C11|concurrent-history-differs-from-isolated-history|-", Detail: diffSnap(refs[i], got), Replay: c})
			}
		}
		o.Op(fmt.Sprintf("copyrace %d", ci), "copyrace")
		if changed == 3 && !seen[c.featureKey()] {
			seen[c.featureKey()] = true
			o.Distinct("feature-sets-all-three-mutated")
		}
		o.Sample(map[string]any{"features": c.Features, "changed": changed})
	}
	collectRaces(o, "C11", "see stream copyrace, seed in evidence")
}

func runParRace(o *Out, _ *rand.Rand, thorough bool) {
	o.Meta.Rule = "a case = generated instance × (parallel runs 2..4, start solutions 0..3, deterministic or not) solved by the " +
		"parallel solver, and by the single solver; non-trivial = a case in which at least two runs delivered a solution; " +
		"distinct by feature set"
	ncases := 40
	if thorough {
		ncases = 400
	}
	seen := map[string]bool{}
	for ci := 0; ci < ncases; ci++ {
		rng := o.CaseRng(ci)
		c := genCase(rng, fullProfile(4+rng.Intn(8), 1+rng.Intn(3)))
		c.Solve = &CSolve{Runs: 2 + rng.Intn(3), Starts: rng.Intn(4), Det: rng.Intn(2) == 0, Iters: 300 + rng.Intn(600)}
		if ci%4 == 2 {
			// many single-stop units under tight capacities and windows, four runs that are not held at a barrier: the
			// single-stop best-move search meets rejected cheapest positions all the time (its retry loop and the pooled
			// containers it hands back are what several runs share through package-level pools)
			c = genCase(rng, Profile{MaxStops: 12 + rng.Intn(6), MinStopCount: 10, MaxVehicles: 3, Capacity: true, Windows: true, Tight: true})
			c.Solve = &CSolve{Runs: 4, Starts: 0, Det: false, Iters: 1500 + rng.Intn(1000)}
			c.feature("tight-single-stop-units-four-free-runs")
		}
		if !o.BeginCase(ci, c) {
			continue
		}
		o.Meta.Cases++
		bt, err, pan := buildCase(c)
		if pan != nil || err != nil {
			continue
		}
		opt := nextroute.ParallelSolveOptions{Iterations: c.Solve.Iters, Duration: 20 * time.Second, ParallelRuns: c.Solve.Runs,
			StartSolutions: c.Solve.Starts, RunDeterministically: c.Solve.Det}
		if ci%4 == 0 {
			// the model's lazily filled caches, first used by several goroutines at once — what the un-plan operators
			// of several solver runs do (they call the same function), without waiting for the runs to collide by chance
			// (E27: the closest-stops cache was read in front of its lock)
			var wg sync.WaitGroup
			for g := 0; g < c.Solve.Runs+1; g++ {
				wg.Add(1)
				go func() {
					defer wg.Done()
					for _, st := range bt.model.Stops() {
						_, _ = st.ClosestStops()
					}
				}()
			}
			wg.Wait()
			o.Count("lazy-cache-first-use-probes")
		}
		var sols []nextroute.Solution
		var serr error
		var span any
		if ci%4 == 1 {
			// a caller that works on what it is handed WHILE the solve goes on: every delivered improvement is the caller's
			// (a copy) — it un-plans a unit of it and copies it. (The FIRST delivered solution is left alone: it is the
			// solver's own best-solution object, the listed finding E25.)
			sols, serr, span = solveReworking(bt.model, opt, os.Getenv("VERIF_REWORK_FIRST") != "")
			o.Count("caller-reworks-delivered-solutions")
		} else {
			sols, _, serr, span = solveAll(bt.model, opt)
		}
		if span != nil || serr != nil {
			continue
		}
		o.Op(fmt.Sprintf("parrace %d", ci), "parrace")
		if len(sols) >= 2 && !seen[c.featureKey()] {
			seen[c.featureKey()] = true
			o.Distinct("feature-sets-with-several-deliveries")
		}
		for _, f := range c.Features {
			o.Count("feature:" + f)
		}
		o.Sample(map[string]any{"features": c.Features, "solve": c.Solve, "delivered": len(sols)})
	}
	collectRaces(o, "C14", "see stream parrace, seed in evidence")
}

// solveReworking: the parallel solver with a consumer that un-plans a planned unit of every delivered solution (but the
// first, unless first is set) right after receiving it, and copies it.
func solveReworking(model nextroute.Model, opt nextroute.ParallelSolveOptions, first bool) (sols []nextroute.Solution, err error, pan any) {
	defer func() {
		if r := recover(); r != nil {
			pan = r
		}
	}()
	solver, e := nextroute.NewParallelSolver(model)
	if e != nil {
		return nil, e, nil
	}
	ctx, cancel := solveCtx(60 * time.Second)
	defer cancel()
	ch, e := solver.Solve(ctx, opt)
	if e != nil {
		return nil, e, nil
	}
	k := 0
	var wg sync.WaitGroup
	defer wg.Wait()
	for s := range ch {
		if s.Error != nil {
			return sols, s.Error, nil
		}
		if k == 0 && first {
			// keep working on the first solution while the runs start from it (until an improvement replaces it)
			sol0 := s.Solution
			wg.Add(1)
			go func() {
				defer wg.Done()
				defer func() { _ = recover() }()
				for i := 0; i < 400; i++ {
					if pl := sol0.PlannedPlanUnits().SolutionPlanUnits(); len(pl) > 0 {
						_, _ = pl[0].UnPlan()
					}
					if un := sol0.UnPlannedPlanUnits().SolutionPlanUnits(); len(un) > 0 {
						if mv := sol0.BestMove(ctx, un[0]); mv.IsExecutable() {
							_, _ = mv.Execute(ctx)
						}
					}
				}
			}()
		} else if k > 0 {
			if pl := s.Solution.PlannedPlanUnits().SolutionPlanUnits(); len(pl) > 0 {
				_, _ = pl[0].UnPlan()
			}
			_ = s.Solution.Copy()
		}
		k++
		sols = append(sols, s.Solution)
	}
	return sols, nil, nil
}

// parracefirst: the same reworking caller, but it also writes to the FIRST solution it is handed — which is the solver's
// own best-solution object (E25): the runs that copy it at their start race with the caller. Listed; a stream of its own
// so that its race reports carry their own clause.
func init() {
	streams["parracefirst"] = func(o *Out, _ *rand.Rand, thorough bool) {
		raceClause = "data-race-caller-writes-first-delivered-solution"
		o.Meta.Rule = "a case = generated instance solved by the parallel solver with a caller that un-plans a unit of EVERY delivered solution, the first included"
		ncases := 8
		if thorough {
			ncases = 40
		}
		for ci := 0; ci < ncases; ci++ {
			rng := o.CaseRng(ci)
			c := genCase(rng, fullProfile(4+rng.Intn(8), 1+rng.Intn(3)))
			c.Solve = &CSolve{Runs: 2 + rng.Intn(3), Starts: rng.Intn(4), Det: rng.Intn(2) == 0, Iters: 300 + rng.Intn(600)}
			if !o.BeginCase(ci, c) {
				continue
			}
			o.Meta.Cases++
			bt, err, pan := buildCase(c)
			if pan != nil || err != nil {
				continue
			}
			opt := nextroute.ParallelSolveOptions{Iterations: c.Solve.Iters, Duration: 20 * time.Second, ParallelRuns: c.Solve.Runs,
				StartSolutions: c.Solve.Starts, RunDeterministically: c.Solve.Det}
			if _, serr, span := solveReworking(bt.model, opt, true); span != nil || serr != nil {
				o.Count("parracefirst:solve-failed")
				continue
			}
			o.Op(fmt.Sprintf("parracefirst %d", ci), "parracefirst")
		}
		collectRaces(o, "C14", "see stream parracefirst, seed in evidence")
	}
}
