package main

// Stream `hist`: API-level operation histories on a real solution (DESIGN §4.1): best moves,
// explicitly constructed moves, un-plans of root units AND of members, vehicle-level un-plans,
// copies, solution checks — interleaved, optionally under a user constraint whose estimate always
// answers "not violated" (so that the rollback branches run thousands of times).
//
// After every operation the real solution is observed and judged by NR.Spec (C01–C05, C08);
// the properties about single operations are decided on the spot on the code's own values:
//   C07  a rejected Execute / UnPlan leaves the observable snapshot unchanged,
//   C09  an executable move executes,
//   C10  BestMove = min over NewMoveStops on every enumerated placement; generator enumerations
//        are replayed through NR.Gen,
//   C11  a copy is identical and later operations on one side never change the other,
//   C18  check.SolutionCheck leaves the snapshot unchanged and reports truthfully,
//   C19  the user constraint's exact check holds on every observed solution.

import (
	"context"
	"fmt"
	"math"
	"math/big"
	"math/rand"
	"os"
	"runtime/debug"
	"sort"
	"strconv"
	"strings"
	"time"

	"github.com/nextmv-io/nextroute"
	"github.com/nextmv-io/nextroute/check"
)

func init() {
	streams["hist"] = func(o *Out, rng *rand.Rand, thorough bool) { runHist(o, thorough, false) }
	streams["histuc"] = func(o *Out, rng *rand.Rand, thorough bool) { runHist(o, thorough, true) }
	// histw: the same histories on instances biased to what the temporal estimates have to get right
	// (tight multi-windows, stop and vehicle wait limits, non-metric and time-dependent matrices)
	streams["histw"] = func(o *Out, rng *rand.Rand, thorough bool) { waitBias = true; runHist(o, thorough, false) }
}

// ------------------------------------------------------------------------------ user constraint

type userConstraint struct {
	Level    string  `json:"level"` // stop | vehicle | solution
	Kind     string  `json:"kind"`
	K        int     `json:"k"`
	T        float64 `json:"t"`
	Temporal bool    `json:"temporal"`
	// Kind "notfirst": the stop with this id must not come directly behind the vehicle's first stop
	ID string `json:"id,omitempty"`
	// Level "multi": ONE constraint object implementing all three check interfaces, one predicate per level
	Sub       []*userConstraint `json:"sub,omitempty"`
	rejected  int
	evaluated int
}

func (u *userConstraint) String() string { return "user_" + u.Level + "_" + u.Kind }

func (u *userConstraint) EstimateIsViolated(nextroute.SolutionMoveStops) (bool, nextroute.StopPositionsHint) {
	return false, nextroute.NoPositionsHint()
}

func (u *userConstraint) IsTemporal() bool { return u.Temporal }

func (u *userConstraint) stopBad(s nextroute.SolutionStop) bool {
	switch u.Kind {
	case "position":
		return s.Position() > u.K
	case "arrival":
		return !s.IsFirst() && s.ArrivalValue() > u.T
	case "cumtravel":
		return s.CumulativeTravelDurationValue() > u.T
	case "notfirst": // the named stop needs some stop in front of it
		return !s.IsFirst() && !s.IsLast() && s.ModelStop().ID() == u.ID && s.Previous().IsFirst()
	case "parity": // a stop with odd model index may not directly follow one with odd index
		return !s.IsFirst() && !s.IsLast() && s.ModelStop().Index()%2 == 1 && !s.Previous().IsFirst() && s.Previous().ModelStop().Index()%2 == 1
	}
	return false
}

func (u *userConstraint) vehicleBad(v nextroute.SolutionVehicle) bool {
	switch u.Kind {
	case "count":
		return v.NumberOfStops() > u.K
	case "notexactly":
		return v.NumberOfStops() == u.K
	case "duration":
		return v.DurationValue() > u.T
	}
	return false
}

func (u *userConstraint) solutionBad(s nextroute.Solution) bool {
	switch u.Kind {
	case "total":
		n := 0
		for _, v := range s.Vehicles() {
			n += v.NumberOfStops()
		}
		return n > u.K
	case "vehicles":
		n := 0
		for _, v := range s.Vehicles() {
			if !v.IsEmpty() {
				n++
			}
		}
		return n > u.K
	}
	return false
}

type ucStop struct{ *userConstraint }
type ucVehicle struct{ *userConstraint }
type ucSolution struct{ *userConstraint }

func (u ucStop) DoesStopHaveViolations(s nextroute.SolutionStop) bool {
	u.evaluated++
	b := u.stopBad(s)
	if b {
		u.rejected++
	}
	return b
}
func (u ucVehicle) DoesVehicleHaveViolations(v nextroute.SolutionVehicle) bool {
	u.evaluated++
	b := u.vehicleBad(v)
	if b {
		u.rejected++
	}
	return b
}
func (u ucSolution) DoesSolutionHaveViolations(s nextroute.Solution) bool {
	u.evaluated++
	b := u.solutionBad(s)
	if b {
		u.rejected++
	}
	return b
}

func genUserConstraint(rng *rand.Rand, c *Case) *userConstraint {
	if rng.Intn(4) == 0 {
		m := &userConstraint{Level: "multi", Kind: "all", Temporal: rng.Intn(2) == 0}
		for lvl := 0; lvl < 3; lvl++ {
			m.Sub = append(m.Sub, genUserConstraintLevel(rng, c, lvl))
		}
		return m
	}
	return genUserConstraintLevel(rng, c, rng.Intn(3))
}

func genUserConstraintLevel(rng *rand.Rand, c *Case, level int) *userConstraint {
	u := &userConstraint{Temporal: rng.Intn(2) == 0}
	switch level {
	case 0:
		u.Level = "stop"
		u.Kind = []string{"position", "arrival", "cumtravel", "parity"}[rng.Intn(4)]
		u.K = 1 + rng.Intn(4)
		u.T = float64(600 + rng.Intn(2400))
		if u.Kind == "arrival" {
			u.T = float64(baseTime + int64(1200+rng.Intn(6000)))
		}
	case 1:
		u.Level = "vehicle"
		u.Kind = []string{"count", "notexactly", "duration"}[rng.Intn(3)]
		u.K = 1 + rng.Intn(4)
		u.T = float64(1800 + rng.Intn(6000))
	default:
		u.Level = "solution"
		u.Kind = []string{"total", "vehicles"}[rng.Intn(2)]
		u.K = 1 + rng.Intn(len(c.Stops))
		if u.Kind == "vehicles" {
			u.K = 1 + rng.Intn(len(c.Vehicles))
		}
	}
	return u
}

// ucForbid: a second user constraint of the histuc stream, vehicle level. It rejects exactly one route of one
// vehicle — the one the harness names just before an un-plan operation (the route that operation would
// produce) — and nothing otherwise, so that the rollback branches of the un-plan operations (stops-unit,
// member of a units-unit, vehicle level) run on arbitrary instances. A state predicate: the attempted state
// violates it, the restored state does not.
type forbidState struct {
	sig  string
	hits int
}
type ucForbid struct {
	st       *forbidState
	temporal bool
}

func routeSig(v nextroute.SolutionVehicle) string {
	var sb strings.Builder
	sb.WriteString(strconv.Itoa(v.Index()))
	sb.WriteByte(':')
	for _, st := range v.SolutionStops() {
		if !st.IsFirst() && !st.IsLast() {
			sb.WriteString(strconv.Itoa(st.ModelStop().Index()))
			sb.WriteByte(',')
		}
	}
	return sb.String()
}

// routeSigWithout: the signature of v's route after removing the stops for which drop() holds.
func routeSigWithout(v nextroute.SolutionVehicle, drop func(nextroute.SolutionStop) bool) string {
	var sb strings.Builder
	sb.WriteString(strconv.Itoa(v.Index()))
	sb.WriteByte(':')
	for _, st := range v.SolutionStops() {
		if !st.IsFirst() && !st.IsLast() && !drop(st) {
			sb.WriteString(strconv.Itoa(st.ModelStop().Index()))
			sb.WriteByte(',')
		}
	}
	return sb.String()
}

func (u ucForbid) String() string { return "user_forbid_route" }
func (u ucForbid) EstimateIsViolated(nextroute.SolutionMoveStops) (bool, nextroute.StopPositionsHint) {
	return false, nextroute.NoPositionsHint()
}
func (u ucForbid) IsTemporal() bool { return u.temporal }
func (u ucForbid) DoesVehicleHaveViolations(v nextroute.SolutionVehicle) bool {
	if u.st.sig == "" || routeSig(v) != u.st.sig {
		return false
	}
	u.st.hits++
	return true
}

// solution-level data kept by ucForbid (constraint) and ucObjective (objective term of value 0): refreshed IN
// PLACE, as a user's updater may do — a copy that shares the object with its original then sees the other
// side's operations (C11)
type countData struct{ planned int }

func (d *countData) Copy() nextroute.Copier { c := *d; return &c }

func plannedCount(s nextroute.Solution) int {
	n := 0
	for _, v := range s.Vehicles() {
		n += v.NumberOfStops()
	}
	return n
}

func (u ucForbid) UpdateConstraintSolutionData(s nextroute.Solution) (nextroute.Copier, error) {
	if d, ok := s.ConstraintData(u).(*countData); ok && d != nil {
		d.planned = plannedCount(s)
		return d, nil
	}
	return &countData{planned: plannedCount(s)}, nil
}

type ucObjective struct{ id *int }

func (u ucObjective) String() string                                         { return "user_objective_zero" }
func (u ucObjective) EstimateDeltaValue(nextroute.SolutionMoveStops) float64 { return 0 }
func (u ucObjective) Value(nextroute.Solution) float64                       { return 0 }
func (u ucObjective) UpdateObjectiveSolutionData(s nextroute.Solution) (nextroute.Copier, error) {
	if d, ok := s.ObjectiveData(u).(*countData); ok && d != nil {
		d.planned = plannedCount(s)
		return d, nil
	}
	return &countData{planned: plannedCount(s)}, nil
}

// solutionDataStale: the in-place refreshed data of a solution disagrees with the solution itself.
func solutionDataStale(s nextroute.Solution, fc ucForbid, fo ucObjective) string {
	n := plannedCount(s)
	if d, ok := s.ConstraintData(fc).(*countData); ok && d != nil && d.planned != n {
		return fmt.Sprintf("constraint solution data says %d planned stops, the solution has %d", d.planned, n)
	}
	if d, ok := s.ObjectiveData(fo).(*countData); ok && d != nil && d.planned != n {
		return fmt.Sprintf("objective solution data says %d planned stops, the solution has %d", d.planned, n)
	}
	return ""
}

type ucMulti struct{ *userConstraint }

func (u ucMulti) count(b bool) bool {
	u.evaluated++
	if b {
		u.rejected++
	}
	return b
}
func (u ucMulti) DoesStopHaveViolations(s nextroute.SolutionStop) bool {
	return u.count(u.Sub[0].stopBad(s))
}
func (u ucMulti) DoesVehicleHaveViolations(v nextroute.SolutionVehicle) bool {
	return u.count(u.Sub[1].vehicleBad(v))
}
func (u ucMulti) DoesSolutionHaveViolations(s nextroute.Solution) bool {
	return u.count(u.Sub[2].solutionBad(s))
}

func (u *userConstraint) asConstraint() nextroute.ModelConstraint {
	switch u.Level {
	case "multi":
		return ucMulti{u}
	case "stop":
		return ucStop{u}
	case "vehicle":
		return ucVehicle{u}
	}
	return ucSolution{u}
}

// holdsOn evaluates the user predicate on a whole solution, independently of the engine's calls.
func (u *userConstraint) violatedOn(s nextroute.Solution) string {
	switch u.Level {
	case "multi":
		for _, sub := range u.Sub {
			if w := sub.violatedOn(s); w != "" {
				return sub.Level + " level: " + w
			}
		}
		return ""
	case "stop":
		for _, v := range s.Vehicles() {
			for _, st := range v.SolutionStops() {
				if u.stopBad(st) {
					return fmt.Sprintf("stop %s on vehicle %d", st.ModelStop().ID(), v.Index())
				}
			}
		}
	case "vehicle":
		for _, v := range s.Vehicles() {
			if u.vehicleBad(v) {
				return fmt.Sprintf("vehicle %d", v.Index())
			}
		}
	default:
		if u.solutionBad(s) {
			return "solution"
		}
	}
	return ""
}

// ------------------------------------------------------------------------------ observers

type planObserver struct {
	nextroute.SolutionObserver
	failedBy string
	events   []string
}

// ------------------------------------------------------------------------------ the stream

type histCase struct {
	Case *Case           `json:"case"`
	UC   *userConstraint `json:"uc,omitempty"`
	Ops  []string        `json:"ops"`
	Seed int64           `json:"seed"`
}

func snapOf(b *Binding, s nextroute.Solution) string {
	return strings.TrimPrefix(b.observe(s, "x"), "obs x ")
}

// snapSame compares two snapshots: routes and collections exactly, numbers up to a relative 1e-9
// (the unplanned term is a float sum over a collection whose order may legitimately change).
func snapSame(a, b string) bool {
	if a == b {
		return true
	}
	fa, fb := strings.Fields(a), strings.Fields(b)
	if len(fa) != len(fb) {
		return false
	}
	for i := range fa {
		if fa[i] == fb[i] {
			continue
		}
		if strings.HasPrefix(fa[i], "R=") || strings.HasPrefix(fa[i], "B=") {
			return false
		}
		ta := strings.FieldsFunc(fa[i][2:], func(r rune) bool { return r == ',' || r == ':' || r == '|' })
		tb := strings.FieldsFunc(fb[i][2:], func(r rune) bool { return r == ',' || r == ':' || r == '|' })
		if len(ta) != len(tb) {
			return false
		}
		for j := range ta {
			if ta[j] == tb[j] {
				continue
			}
			x, ok1 := new(big.Rat).SetString(ta[j])
			y, ok2 := new(big.Rat).SetString(tb[j])
			if !ok1 || !ok2 {
				return false
			}
			fx, _ := x.Float64()
			fy, _ := y.Float64()
			if math.Abs(fx-fy) > 1e-9*(1+math.Abs(fx)+math.Abs(fy)) {
				return false
			}
		}
	}
	return true
}

// booksConsistent: every root unit listed planned/fixed iff it is planned, listed unplanned units have
// no stop on a route, members listed nowhere. When this breaks the case is tainted: what follows
// is a consequence of that state and is not judged any more.
func booksConsistent(s nextroute.Solution) bool {
	check := func(c nextroute.ImmutableSolutionPlanUnitCollection, wantPlanned bool) bool {
		for _, u := range c.SolutionPlanUnits() {
			if _, member := u.ModelPlanUnit().PlanUnitsUnit(); member {
				return false
			}
			if u.IsPlanned() != wantPlanned {
				return false
			}
			if !wantPlanned {
				for _, m := range memberStopsUnits(u) {
					for _, st := range m.SolutionStops() {
						if st.IsPlanned() {
							return false
						}
					}
				}
			}
		}
		return true
	}
	return check(s.PlannedPlanUnits(), true) && check(s.FixedPlanUnits(), true) && check(s.UnPlannedPlanUnits(), false)
}

func rootIndex(u nextroute.ModelPlanUnit) int {
	for {
		p, ok := u.PlanUnitsUnit()
		if !ok {
			return u.Index()
		}
		u = p
	}
}

// inconsistentRoots: the root units whose filing (planned / unplanned collection) disagrees with their stops.
func inconsistentRoots(s nextroute.Solution) []int {
	var bad []int
	check := func(c nextroute.ImmutableSolutionPlanUnitCollection, wantPlanned bool) {
		for _, u := range c.SolutionPlanUnits() {
			ok := u.IsPlanned() == wantPlanned
			if ok && !wantPlanned {
				for _, m := range memberStopsUnits(u) {
					for _, st := range m.SolutionStops() {
						if st.IsPlanned() {
							ok = false
						}
					}
				}
			}
			if !ok {
				bad = append(bad, rootIndex(u.ModelPlanUnit()))
			}
		}
	}
	check(s.PlannedPlanUnits(), true)
	check(s.FixedPlanUnits(), true)
	check(s.UnPlannedPlanUnits(), false)
	return bad
}

// unplannedScoreFresh: the unplanned-penalty term equals the penalties of the units listed as unplanned
// (a stale term — finding E17 — makes every later before/after comparison meaningless: taint).
func unplannedScoreFresh(bt *built, s nextroute.Solution) bool {
	var cost func(u int) float64
	cost = func(u int) float64 {
		du := bt.d.units[u]
		if du.Kind == "stops" {
			t := 0.0
			for _, st := range du.Stops {
				cs, isAlt := bt.d.stopOf(st)
				p := 1000000.0
				if isAlt {
					p = 2000000.0
				}
				if cs.Penalty != nil {
					p = float64(*cs.Penalty)
				}
				t += p
			}
			return t
		}
		t := 0.0
		for _, m := range du.Members {
			t += cost(m)
		}
		if du.Kind == "oneof" && len(du.Members) > 0 {
			t /= float64(len(du.Members))
		}
		return t
	}
	for _, term := range s.Model().Objective().Terms() {
		if termName(term.Objective()) != "unplanned" {
			continue
		}
		want := 0.0
		for _, u := range s.UnPlannedPlanUnits().SolutionPlanUnits() {
			ci, ok := bt.b.unitIdx[u.ModelPlanUnit().Index()]
			if !ok {
				return true
			}
			want += cost(ci)
		}
		got := s.ObjectiveValue(term.Objective()) / term.Factor()
		return math.Abs(got-want) <= 1e-6*(1+math.Abs(want))
	}
	return true
}

func unitsOf(s nextroute.Solution, pred func(nextroute.SolutionPlanUnit) bool) []nextroute.SolutionPlanUnit {
	var out []nextroute.SolutionPlanUnit
	add := func(c nextroute.ImmutableSolutionPlanUnitCollection) {
		for _, u := range c.SolutionPlanUnits() {
			if pred(u) {
				out = append(out, u)
			}
		}
	}
	add(s.PlannedPlanUnits())
	add(s.UnPlannedPlanUnits())
	// fixed units too: an operation on them (or on one of their members) has to be refused
	add(s.FixedPlanUnits())
	seen := map[int]bool{}
	uniq := out[:0]
	for _, u := range out {
		if !seen[u.ModelPlanUnit().Index()] {
			seen[u.ModelPlanUnit().Index()] = true
			uniq = append(uniq, u)
		}
	}
	out = uniq
	sort.Slice(out, func(i, j int) bool { return out[i].ModelPlanUnit().Index() < out[j].ModelPlanUnit().Index() })
	return out
}

func memberStopsUnits(u nextroute.SolutionPlanUnit) []nextroute.SolutionPlanStopsUnit {
	switch x := u.(type) {
	case nextroute.SolutionPlanStopsUnit:
		return []nextroute.SolutionPlanStopsUnit{x}
	case nextroute.SolutionPlanUnitsUnit:
		var r []nextroute.SolutionPlanStopsUnit
		for _, m := range x.SolutionPlanUnits() {
			r = append(r, memberStopsUnits(m)...)
		}
		return r
	}
	return nil
}

// plannedStates: per root plan unit (role, planned flag, number of member stops-units on routes).
func plannedStates(s nextroute.Solution) map[int]string {
	out := map[int]string{}
	for _, mu := range s.Model().PlanUnits() {
		if _, member := mu.PlanUnitsUnit(); member {
			continue
		}
		su := s.SolutionPlanUnit(mu)
		if su == nil {
			continue
		}
		n := 0
		for _, m := range memberStopsUnits(su) {
			if m.IsPlanned() {
				n++
			}
		}
		out[mu.Index()] = fmt.Sprintf("%s/%v/%d", unitRole(su), su.IsPlanned(), n)
	}
	return out
}

// plannedStateDiff: the roles of the root units whose planned state differs ("none": only values differ).
func plannedStateDiff(a, b map[int]string) string {
	roles := map[string]bool{}
	for k, v := range a {
		if b[k] != v {
			roles[strings.SplitN(v, "/", 2)[0]] = true
		}
	}
	if len(roles) == 0 {
		return "none"
	}
	var l []string
	for r := range roles {
		l = append(l, r)
	}
	sort.Strings(l)
	return strings.Join(l, "+")
}

// removableByVehicleUnplan: the stop is not fixed and neither is the root plan unit it belongs to (a unit is fixed as soon
// as one of its stops is, a unit of units as soon as one of its members is): what SolutionVehicle.Unplan takes off.
func removableByVehicleUnplan(sol nextroute.Solution, st nextroute.SolutionStop) bool {
	if st.IsFirst() || st.IsLast() || st.IsFixed() {
		return false
	}
	mu := st.PlanStopsUnit().ModelPlanUnit()
	for {
		p, ok := mu.PlanUnitsUnit()
		if !ok {
			break
		}
		mu = p
	}
	su := sol.SolutionPlanUnit(mu)
	if su != nil && su.IsFixed() {
		return false
	}
	// (since the repair of E34) a unit with stops on another vehicle as well is not touched
	if su != nil {
		for _, m := range memberStopsUnits(su) {
			for _, x := range m.SolutionStops() {
				if x.IsPlanned() && x.Vehicle().Index() != st.Vehicle().Index() {
					return false
				}
			}
		}
	}
	return true
}

func unitRole(u nextroute.SolutionPlanUnit) string {
	kind := "stops"
	if uu, ok := u.(nextroute.SolutionPlanUnitsUnit); ok {
		if uu.ModelPlanUnitsUnit().PlanOneOf() {
			kind = "oneof"
		} else if !uu.ModelPlanUnitsUnit().SameVehicle() {
			kind = "allloose" // plan-all over several vehicles (model API only)
		} else {
			kind = "all"
		}
	} else if len(u.(nextroute.SolutionPlanStopsUnit).SolutionStops()) > 1 {
		kind = "stops-multi"
	}
	if p, ok := u.ModelPlanUnit().PlanUnitsUnit(); ok {
		if p.PlanOneOf() {
			return kind + "-member-of-oneof"
		}
		if !p.SameVehicle() {
			return kind + "-member-of-allloose"
		}
		return kind + "-member-of-all"
	}
	return kind
}

var waitBias bool

// histRec: the recording observer of the history being run (used by the oracle enumerations)
var histRec *recorder

func runHist(o *Out, thorough bool, withUC bool) {
	o.Meta.Rule = "a case = generated instance × random operation history (best move / explicit move / un-plan of a " +
		"root unit or of a member / vehicle un-plan / copy / check); non-trivial = a history in which at least one " +
		"operation was rejected by an exact check (rollback ran) or touched a unit of units; distinct by " +
		"(feature set, kinds of operations rejected)"
	ncases, nops := 1200, 40
	if thorough {
		ncases, nops = 10000, 60
	}
	name := "hist"
	if withUC {
		name = "histuc"
	}
	_ = name
	distinct := map[string]bool{}
	for ci := 0; ci < ncases; ci++ {
		rng := o.CaseRng(ci)
		p := fullProfile(3+rng.Intn(6), 1+rng.Intn(3))
		if ci%3 == 1 {
			p.Tight = true
		}
		if ci%4 == 2 && !waitBias {
			p.Tight = true
			p.Capacity, p.Limits = true, true
		}
		if ci%8 == 5 && !waitBias {
			p = Profile{MaxStops: 5 + rng.Intn(4), MaxVehicles: 1 + rng.Intn(2), Precedence: true, ForceUnordered: true, InitialUnordered: true,
				Windows: rng.Intn(2) == 0, NonMetric: rng.Intn(2) == 0, TD: rng.Intn(3) == 0, Mult: rng.Intn(3) == 0}
		}
		if ci%6 == 3 && !waitBias {
			// mixing items everywhere: the no-mix estimate has to reason about what other units carry between positions
			p = Profile{MaxStops: 6 + rng.Intn(5), MaxVehicles: 1 + rng.Intn(2), ForceMix: true, Precedence: rng.Intn(2) == 0,
				NonMetric: true, Capacity: rng.Intn(3) == 0}
		}
		if waitBias {
			p = Profile{MaxStops: 4 + rng.Intn(5), MaxVehicles: 1 + rng.Intn(2), Windows: true, Waits: true, NonMetric: true,
				TD: ci%4 != 1, Limits: true, Tight: ci%2 == 0, ForceWindows: true, Precedence: ci%3 != 0, ForcePrec: ci%3 == 1, Trap: ci%3 == 2,
				// duration groups: a member that waits keeps its START when a stranger is put in front of it but pays the group's
				// duration again and ENDS later — what the latest estimates must see behind it
				DurGroups: ci%4 == 1, ForceDurGroups: ci%4 == 1, Mult: ci%4 == 3}
			if ci%4 == 1 {
				// the duration-group quarter: no wait limits (the members are meant to wait), single-stop units only (the
				// scripted prelude places them one by one), time-independent travel (the estimates' early exits are off otherwise)
				p = Profile{MaxStops: 5 + rng.Intn(4), MaxVehicles: 1 + rng.Intn(2), Windows: true, NonMetric: rng.Intn(2) == 0,
					Limits: rng.Intn(2) == 0, ForceDurGroups: true, DurGroups: true, Mult: rng.Intn(3) == 0}
			}
			if ci%5 == 4 {
				// metric travel, declared so through the model API: the latest-start / latest-end exact checks are off, the wait
				// limits are what un-planning has to re-validate (removing a stop makes the vehicle arrive earlier and wait longer)
				p = Profile{MaxStops: 4 + rng.Intn(5), MaxVehicles: 1 + rng.Intn(2), Windows: true, Waits: true, Limits: true,
					Tight: ci%2 == 0, ForceWindows: true, Metric: true, Precedence: rng.Intn(2) == 0}
			}
		}
		if withUC && ci%6 == 5 {
			// a fixed initial stop between two removable stops, then a rejected vehicle-level un-plan (scripted, see FixedMid)
			p = Profile{MaxStops: 5 + rng.Intn(4), MaxVehicles: 1, FixedMiddle: true, NonMetric: rng.Intn(2) == 0, Capacity: rng.Intn(3) == 0}
		}
		c := genCase(rng, p)
		if ci%8 == 6 && !waitBias && c.Dur != nil && len(c.Neutral) == 0 && len(c.Trap) == 0 && !c.ClaimMetric {
			// coarse durations: many insertion positions cost exactly the same — the tie handling of the best-move search
			// (the cheapest candidate rejected, an equally cheap one accepted) gets exercised
			for i := range c.Dur {
				for j := range c.Dur[i] {
					if i != j {
						c.Dur[i][j] = 300 * (1 + c.Dur[i][j]/300)
					}
				}
			}
			c.feature("tie-heavy")
		}
		hc := &histCase{Case: c, Seed: rng.Int63()}
		if withUC {
			hc.UC = genUserConstraint(rng, c)
			if len(c.InitUnplan) == 2 {
				// the stop BETWEEN the stops of the initial unit must not become the first stop of the route: the scripted
				// un-plan of that unit has to be rejected by the exact check AT THAT STOP — which lies in front of the unit's
				// first-listed stop when the unit came in an order other than its own
				hc.UC = &userConstraint{Level: "stop", Kind: "notfirst", ID: c.Stops[c.InitUnplan[1]].ID, Temporal: rng.Intn(2) == 0}
				c.feature("uc-stop-between-initial-unit-must-not-be-first")
			}
			if len(c.FixedMid) == 3 {
				// a constraint that lets the scripted prelude through (at most six stops on a vehicle); the rejection of the
				// vehicle-level un-plan comes from the route-forbidding constraint
				hc.UC = &userConstraint{Level: "vehicle", Kind: "count", K: 6, Temporal: rng.Intn(2) == 0}
			}
		}
		if withUC && ci%6 == 4 {
			// a group whose members can only be removed in reverse order, under a user constraint that lets two stops on
			// a vehicle and rejects the third: the group move fails at its last member and must be rolled back
			// (the search for the group's best move executes the members, so the rejection has to come from a state that
			// changed in between: these cases keep the move and execute it after other units were planned — seed ≡ 0 mod 4)
			p2 := Profile{MaxStops: 5 + rng.Intn(4), MaxVehicles: 1, GroupTrap: true, NonMetric: rng.Intn(2) == 0}
			c = genCase(rng, p2)
			hc = &histCase{Case: c, Seed: rng.Int63() &^ 3, UC: &userConstraint{Level: "vehicle", Kind: "count", K: 3 + rng.Intn(2), Temporal: rng.Intn(2) == 0}}
		}
		if replayFile != "" {
			hc = loadReplayHist(replayFile)
			if hc.Case == nil {
				o.Count("bad-replay-file")
				return
			}
			c = hc.Case
			ncases = 1
		}
		if !o.BeginCase(ci, hc) {
			continue
		}
		o.Meta.Cases++
		runHistCase(o, ci, hc, nops, distinct)
		if replayFile != "" {
			break
		}
	}
}

func runHistCase(o *Out, ci int, hc *histCase, nops int, distinct map[string]bool) {
	c := hc.Case
	rng := rand.New(rand.NewSource(hc.Seed))
	bt, err, pan := buildCase(c)
	if pan != nil {
		o.Violate(Violation{Property: "C16", Clause: "panic-in-build", Sig: "C16|panic-in-build", Detail: fmt.Sprint(pan), Replay: hc})
		return
	}
	if err != nil {
		o.Count("build-error:" + errKind(err))
		return
	}
	uc := hc.UC
	if uc != nil {
		if e := bt.model.AddConstraint(uc.asConstraint()); e != nil {
			o.Count("uc-add-error")
			return
		}
		o.Count("uc:" + uc.Level + ":" + uc.Kind)
	}
	var engC *engCtx
	if uc == nil {
		engC = newEngCtx(bt)
	}
	if c.ClaimMetric {
		// under the triangle claim initial routes are not checked (E35, listed): the engine model, which builds its state
		// by a full check of the routes handed over, has no state for such a route
		for _, ve := range c.Vehicles {
			if len(ve.Initial) > 0 {
				engC = nil
			}
		}
	}
	// a FROM-stop expression (its value at a stop is the fee of the stop in FRONT of it: a property of the route, not of
	// the stop) behind a maximum that never binds — what a solution stores per stop for it must be the copy's own
	var feeExpr nextroute.FromStopExpression
	if uc != nil && hc.Seed%4 < 2 {
		feeExpr = nextroute.NewFromStopExpression("departure-fee", 0)
		for i, st := range bt.model.Stops() {
			feeExpr.SetValue(st, float64(1+i%7))
		}
		if mx, e := nextroute.NewMaximum(feeExpr, nextroute.NewVehicleTypeValueExpression("fee-limit", 1e12)); e == nil {
			if e := bt.model.AddConstraint(mx); e != nil {
				feeExpr = nil
			} else {
				o.Count("from-stop-expression-registered")
			}
		} else {
			feeExpr = nil
		}
	}
	feeDigest := func(s nextroute.Solution) string {
		if feeExpr == nil || s == nil {
			return ""
		}
		var sb strings.Builder
		for _, v := range s.Vehicles() {
			for _, st := range v.SolutionStops() {
				fmt.Fprintf(&sb, "%d=%g/%g ", st.ModelStop().Index(), st.Value(feeExpr), st.CumulativeValue(feeExpr))
			}
			sb.WriteString("| ")
		}
		return sb.String()
	}
	shadowFee := ""
	forbid := &forbidState{}
	fc := ucForbid{st: forbid, temporal: hc.Seed%2 == 0}
	fo := ucObjective{id: new(int)}
	if uc != nil {
		if e := bt.model.AddConstraint(fc); e != nil {
			o.Count("uc-add-error")
			return
		}
		if _, e := bt.model.Objective().NewTerm(1.0, fo); e != nil {
			o.Count("uc-add-error")
			return
		}
	}
	rec := &recorder{}
	histRec = rec
	bt.model.AddSolutionObserver(rec)
	bt.model.AddSolutionUnPlanObserver(rec)
	var sol nextroute.Solution
	func() {
		defer func() {
			if os.Getenv("VERIF_NORECOVER") != "" {
				return
			}
			if r := recover(); r != nil {
				pan = r
			}
		}()
		sol, err = nextroute.NewSolution(bt.model)
	}()
	if pan != nil {
		o.Violate(Violation{Property: "C16", Clause: "panic-in-new-solution", Sig: "C16|panic-in-new-solution", Detail: fmt.Sprint(pan), Replay: hc})
		return
	}
	if err != nil {
		o.Count("new-solution-error:" + errKind(err))
		return
	}
	bt.d.writeInst(o)
	b := bt.b
	ctx := context.Background()
	tainted := false
	tagN := 0
	observe := func(s nextroute.Solution, what string) {
		tagN++
		if tainted {
			what += ".tainted"
		}
		o.Op(b.observe(s, fmt.Sprintf("c%d.%d.%s", ci, tagN, what)), "obs ok")
		if uc != nil {
			if w := uc.violatedOn(s); w != "" && !tainted {
				o.Violate(Violation{Property: "C19", Clause: "user-constraint-violated", Sig: "C19|user-constraint-violated|" + uc.Level + "|after-" + what,
					Detail: uc.String() + " violated at " + w + " after " + what, Replay: hc})
			}
		}
	}
	if c.ClaimMetric {
		observe(sol, "new-solution(claims-metric)")
	} else {
		observe(sol, "new-solution")
	}
	doPanicEarly := func(f func()) {
		defer func() {
			if r := recover(); r != nil {
				o.Violate(Violation{Property: "C16", Clause: "panic-in-operation", Sig: "C16|panic-in-operation|sequence-generator", Detail: fmt.Sprint(r), Replay: hc})
			}
		}()
		f()
	}
	doPanicEarly(func() { seqCorrespondence(o, sol) })
	// NR.Coll correspondence: the unit forest, then after every operation the operation with its
	// feasibility bits and the resulting collections
	cu := func(modelUnitIndex int) int {
		if ci, ok := b.unitIdx[modelUnitIndex]; ok {
			return ci
		}
		return 9999
	}
	collState := func(s nextroute.Solution) string {
		var on []int
		for _, u := range s.Model().PlanStopsUnits() {
			if s.SolutionPlanStopsUnit(u).IsPlanned() {
				on = append(on, cu(u.Index()))
			}
		}
		sort.Ints(on)
		coll := func(c nextroute.ImmutableSolutionPlanUnitCollection) string {
			var ids []int
			for _, u := range c.SolutionPlanUnits() {
				ids = append(ids, cu(u.ModelPlanUnit().Index()))
			}
			sort.Ints(ids)
			return csvI(ids)
		}
		return fmt.Sprintf("R=%s P=%s U=%s F=%s", csvI(on), coll(s.PlannedPlanUnits()), coll(s.UnPlannedPlanUnits()), coll(s.FixedPlanUnits()))
	}
	{
		var kinds, parents, fixed []string
		// members in the order the code iterates them (ModelPlanUnitsUnit.PlanUnits())
		codeMembers := map[int][]int{}
		for _, mu := range sol.Model().PlanUnits() {
			if uu, ok := mu.(nextroute.ModelPlanUnitsUnit); ok {
				var ms []int
				for _, m := range uu.PlanUnits() {
					ms = append(ms, cu(m.Index()))
				}
				codeMembers[cu(mu.Index())] = ms
			}
		}
		for i, u := range bt.d.units {
			members := u.Members
			if cm, ok := codeMembers[i]; ok && len(cm) == len(members) {
				members = cm
			}
			switch u.Kind {
			case "stops":
				kinds = append(kinds, "s")
			case "oneof":
				kinds = append(kinds, "o"+strings.ReplaceAll(csvI(members), ",", "."))
			default:
				kinds = append(kinds, "a"+strings.ReplaceAll(csvI(members), ",", "."))
			}
			if bt.d.parent[i] >= 0 {
				parents = append(parents, fmt.Sprint(bt.d.parent[i]))
			} else {
				parents = append(parents, "-")
			}
			fx := "0"
			for _, su := range sol.Model().PlanStopsUnits() {
				if cu(su.Index()) == i && sol.SolutionPlanStopsUnit(su).IsFixed() {
					fx = "1"
				}
			}
			fixed = append(fixed, fx)
		}
		o.Op("coll init "+strings.Join(kinds, ",")+" "+strings.Join(parents, ",")+" "+strings.Join(fixed, ","), "coll init")
		o.Op("coll set "+collState(sol), "coll set")
	}
	// collOp: emit one modelled operation (nil: the operation is not modelled — resynchronise instead)
	collSuffix := "" // what a coll line reports besides the state (the Boolean result of a group un-plan)
	collOp := func(line string) {
		if line == "" {
			o.Op("coll set "+collState(sol), "coll set")
			return
		}
		o.Op("coll "+line, "coll "+collState(sol)+collSuffix)
		collSuffix = ""
		o.Count("coll-ops")
	}
	bits := func(kind string) string {
		var out []string
		for _, e := range rec.events {
			if e.Kind == kind {
				out = append(out, fmt.Sprintf("%d:%s", cu(e.Unit), b01(e.OK)))
			}
		}
		if len(out) == 0 {
			return "-"
		}
		return strings.Join(out, ",")
	}
	// execLine: the Coll operation for an executed move of `u` (after the call; events recorded)
	execLine := func(mv nextroute.SolutionMove, ok bool) string {
		pu := mv.PlanUnit()
		if pu == nil {
			return ""
		}
		if _, nested := pu.(nextroute.SolutionPlanUnitsUnit); nested {
			return fmt.Sprintf("execUnits %d %s %s", cu(pu.ModelPlanUnit().Index()), bits("plan"), bits("unplan"))
		}
		return fmt.Sprintf("execStops %d %s", cu(pu.ModelPlanUnit().Index()), b01(ok))
	}
	violate := func(prop, clause, sigExtra, detail string) {
		if tainted && prop != "C16" {
			return
		}
		o.Violate(Violation{Property: prop, Clause: clause, Sig: prop + "|" + clause + "|" + sigExtra, Detail: detail, Replay: hc})
	}
	// the other side of the last copy, with the snapshot it must keep
	var shadow nextroute.Solution
	shadowSnap := ""
	rejectedKinds := map[string]bool{}
	touchedNested := false
	brokenBy := map[int]string{} // root unit → the operation after which its filing first disagreed with its stops
	whereOf := func(si int) string {
		st := sol.SolutionStop(bt.model.Stops()[si])
		if st.IsZero() {
			return "after-?"
		}
		if op, ok := brokenBy[rootIndex(st.PlanStopsUnit().ModelPlanUnit())]; ok {
			return "after-" + op
		}
		return "after-?"
	}
	doPanic := func(what string, f func()) (panicked bool) {
		defer func() {
			if r := recover(); r != nil {
				panicked = true
				if os.Getenv("VERIF_STACK") != "" {
					_ = os.WriteFile(os.Getenv("VERIF_STACK"), []byte(fmt.Sprintf("panic in %s: %v\n%s\n", what, r, debug.Stack())), 0o644)
				}
				violate("C16", "panic-in-operation", what, fmt.Sprintf("%s: %v", what, r))
			}
		}()
		f()
		return false
	}
	// stale moves are exercised in a dedicated share of the cases (tight limits, so that a kept move often
	// becomes infeasible): an ACCEPTED stale move taints the case for the estimate-gated properties
	staleCase := hc.Seed%4 == 0
	var pending nextroute.SolutionMove
	var pendingUnit nextroute.SolutionPlanUnit
	pendingRole := ""
	removedSince := false
	fillLeft := 0
	// group trap (histuc): the group's best move is computed on the empty vehicle and kept; K-2 other units are planned
	// on the vehicle; then the kept move is executed: its last member exceeds the user constraint's stop limit and the
	// earlier members have to be taken off again, which the capacity constraint allows in reverse order only
	if uc != nil && uc.Level == "vehicle" && uc.Kind == "count" {
		for _, f := range c.Features {
			if f != "group-trap" || len(c.Groups) == 0 {
				continue
			}
			want := map[string]bool{}
			for _, si := range c.Groups[len(c.Groups)-1] {
				want[c.Stops[si].ID] = true
			}
			for _, u := range unitsOf(sol, func(u nextroute.SolutionPlanUnit) bool { return !u.IsPlanned() && !u.IsFixed() }) {
				if _, nested := u.(nextroute.SolutionPlanUnitsUnit); !nested || len(unitStopIDs(u)) != len(want) {
					continue
				}
				all := true
				for _, id := range unitStopIDs(u) {
					if !want[id] {
						all = false
					}
				}
				if !all {
					continue
				}
				mv := sol.BestMove(ctx, u)
				if mv.IsExecutable() {
					pending, pendingUnit, pendingRole = mv, u, unitRole(u)
					fillLeft = uc.K - 2
					o.Count("group-trap-move-kept")
				}
			}
		}
	}
	// histw: when the instance has a neutral detour (a, x, b), a and b are first planned next to each other at the end
	// of the first vehicle, so that placements of x's unit between them (an unchanged planned stop between two inserted
	// stops) are among those the estimate sweep enumerates
	type forcedOp struct {
		veh  bool // a vehicle-level un-plan of the first vehicle, rejected through the forbidding user constraint
		plan bool // false: un-plan the stop's unit
		stop int  // case stop index
		back int  // plan: gap counted from the vehicle's end (1 = in front of the end stop, 2 = in front of the last planned stop)
	}
	var forced []forcedOp
	if waitBias && len(c.Neutral) > 0 {
		t := c.Neutral[0]
		for _, cand := range c.Neutral {
			if cand[1] < len(c.Stops) && len(c.Stops[cand[1]].Precedes) > 0 {
				t = cand
			}
		}
		forced = []forcedOp{{false, true, t[0], 1}, {false, true, t[2], 1}}
	}
	// removal trap (A, B): B is planned at the tail of the first vehicle, A in front of it, then B is un-planned — the
	// direct leg from A to the vehicle's end is long, so the removal makes the vehicle finish after its end time
	if len(c.Trap) == 2 {
		forced = []forcedOp{{false, true, c.Trap[1], 1}, {false, true, c.Trap[0], 2}, {false, false, c.Trap[1], 0}}
	}
	// duration group whose members wait (histw): members and the tight follower are planned one behind the other, so that
	// the placements of every other unit BETWEEN two members are among those the sweep and the best-move oracle enumerate
	if waitBias && len(c.DGScript) >= 3 {
		forced = nil
		for _, si := range c.DGScript {
			forced = append(forced, forcedOp{false, true, si, 1})
		}
	}
	if len(c.FixedMid) == 3 {
		o.Count(fmt.Sprintf("fixedmid-script:uc=%v", uc != nil))
	}
	if uc != nil && len(c.FixedMid) == 3 {
		forced = []forcedOp{{false, true, c.FixedMid[1], 1}, {false, true, c.FixedMid[2], 3}, {true, false, 0, 0}}
	}
	if len(c.InitUnplan) > 0 {
		forced = []forcedOp{{false, false, c.InitUnplan[0], 0}}
	}
	dgReported := false
	for step := 0; step < nops; step++ {
		var opDesc string
		collLine := ""
		before := snapOf(b, sol)
		kind := rng.Intn(100)
		if waitBias && len(c.DGScript) >= 3 && len(forced) == 0 && !dgReported {
			dgReported = true
			n := 0
			for _, si := range c.DGScript {
				if si < len(bt.model.Stops()) {
					if st := sol.SolutionStop(bt.model.Stops()[si]); !st.IsZero() && st.IsPlanned() {
						n++
					}
				}
			}
			o.Count(fmt.Sprintf("dg-script:planned-%d-of-%d", n, len(c.DGScript)))
		}
		if len(forced) > 0 && pending == nil {
			kind = 45
			if !forced[0].plan {
				kind = 60
			}
			if forced[0].veh {
				kind = 78
			}
		}
		if pending != nil {
			// fill the vehicles with other units first, then execute the kept move
			if fillLeft > 0 {
				fillLeft--
				kind = rng.Intn(40)
			} else {
				kind = 1000
			}
		}
		switch {
		case kind == 1000: // execute the move kept earlier, if it is still structurally valid
			mv, u, role := pending, pendingUnit, pendingRole
			pending = nil
			// a move for a unit of units does not expose its member positions: it is still structurally
			// valid if nothing was removed from any route since it was computed (every stop it refers to
			// is still planned); insertions elsewhere only make it stale
			_, nested := u.(nextroute.SolutionPlanUnitsUnit)
			if u.Solution() != sol || u.IsPlanned() || (nested && removedSince) || (!nested && !moveStillValid(mv)) {
				continue
			}
			for _, m := range memberStopsUnits(u) {
				if m.IsPlanned() {
					nested = false
					u = nil
					break
				}
			}
			if u == nil {
				continue
			}
			opDesc = "stale-execute(" + role + ")"
			var ok bool
			var e error
			rec.reset()
			lk := linksBeforeExecute(sol, mv)
			eo := engC.beforeExecute(sol, mv)
			if doPanic(opDesc, func() { ok, e = mv.Execute(ctx) }) {
				return
			}
			if e != nil {
				violate("C16", "engine-error", "stale-Execute", e.Error())
				// an operation that ends with an error must not leave the solution half changed either
				if after := snapOf(b, sol); !snapSame(after, before) {
					violate("C07", "execute-error-changed-solution", role+"|"+changedParts(before, after)+"|stale", e.Error()+" ; "+diffSnap(before, after))
				}
				return
			}
			lk.afterExecute(o, sol, ok)
			// (under the triangle claim the exact temporal checks are off and a STALE move is vetted by nothing: the engine
			// model, which always checks, has no counterpart — outside the quantifier like every accepted stale move)
			if !tainted && !c.ClaimMetric {
				eo.after(o, sol, ok)
			}
			collLine = execLine(mv, ok)
			o.Count("stale-execute:" + fmt.Sprintf("ok=%v", ok))
			o.Count("stale-execute(" + role + "):" + fmt.Sprintf("ok=%v", ok))
			if !ok {
				rejectedKinds["stale-execute-"+role] = true
				if after := snapOf(b, sol); !snapSame(after, before) {
					violate("C07", "rejected-execute-changed-solution", role+"|"+changedParts(before, after)+"|stale", diffSnap(before, after))
				}
			} else if !u.IsPlanned() {
				violate("C07", "execute-succeeded-unit-not-planned", role+"|stale", "Execute returned true, unit is not planned")
			} else if !tainted {
				// an accepted stale move was admitted by estimates computed on an older state: constraints that
				// are enforced by the estimate alone (maximum stops, attributes, no-mix) are only guaranteed for
				// fresh moves, so what follows is outside C01/C09/C10's quantifier
				tainted = true
				o.Count("tainted-by:accepted-stale-move")
			}
		case kind < 40: // best move
			if kind%8 == 3 && pendingUnit == nil {
				// the vehicle-level query, for ANY root unit: a unit that is planned already (a one-of unit whose alternate
				// is on a route, a group, a plain unit) has no executable move on any vehicle
				roots := unitsOf(sol, func(u nextroute.SolutionPlanUnit) bool { return u.IsPlanned() && !u.IsFixed() })
				vehicles := sol.Vehicles()
				if len(roots) > 0 && len(vehicles) > 0 {
					u := roots[rng.Intn(len(roots))]
					v := vehicles[rng.Intn(len(vehicles))]
					// a one-of unit (the alternates of a vehicle) is asked on the vehicle that carries its planned member: whether it
					// is satisfied already is known at the unit's level only
					var oneofs []nextroute.SolutionPlanUnit
					for _, r := range roots {
						if unitRole(r) == "oneof" {
							oneofs = append(oneofs, r)
						}
					}
					if len(oneofs) > 0 && rng.Intn(2) == 0 {
						u = oneofs[rng.Intn(len(oneofs))]
						for _, m := range memberStopsUnits(u) {
							if m.IsPlanned() && len(m.SolutionStops()) > 0 {
								v = m.SolutionStops()[0].Vehicle()
							}
						}
					}
					role := unitRole(u)
					var mv nextroute.SolutionMove
					if doPanic("vehicle-bestmove("+role+")", func() { mv = v.BestMove(ctx, u) }) {
						return
					}
					o.Count("vehicle-bestmove-on-planned-unit:" + role)
					if role == "oneof" {
						np := 0
						for _, m := range memberStopsUnits(u) {
							if m.IsPlanned() {
								np++
							}
						}
						o.Count(fmt.Sprintf("vehicle-bestmove-oneof:members=%d-planned=%d", len(memberStopsUnits(u)), np))
					}
					if mv != nil && mv.IsExecutable() {
						// (judged in every state: whether a unit is planned is read from its stops, not from the collections a
						// listed finding may have left inconsistent)
						o.Violate(Violation{Property: "C10", Clause: "vehicle-best-move-executable-for-planned-unit",
							Sig:    "C10|vehicle-best-move-executable-for-planned-unit|" + role,
							Detail: fmt.Sprintf("SolutionVehicle.BestMove offers an executable move for a %s unit that is planned", role), Replay: hc})
						if role == "oneof" {
							// what executing it does, on a copy: a second alternate stop on a vehicle (C03)
							cp := sol.Copy()
							cu := cp.SolutionPlanUnit(u.ModelPlanUnit())
							for _, cv := range cp.Vehicles() {
								if cv.Index() != v.Index() || cu == nil {
									continue
								}
								if cm := cv.BestMove(ctx, cu); cm != nil && cm.IsExecutable() {
									if okx, ex := cm.Execute(ctx); ex == nil && okx {
										n := 0
										for _, m := range memberStopsUnits(cu) {
											if m.IsPlanned() {
												n++
											}
										}
										if n > 1 {
											o.Violate(Violation{Property: "C03", Clause: "more-than-one-alternate", Sig: "C03|more-than-one-alternate|-|vehicle-bestmove(oneof)",
												Detail: fmt.Sprintf("after executing the vehicle-level best move %d alternates of the unit are planned", n), Replay: hc})
										}
									}
								}
							}
						}
					}
				}
			}
			unpl := unitsOf(sol, func(u nextroute.SolutionPlanUnit) bool { return !u.IsPlanned() && !u.IsFixed() && u != pendingUnit })
			if len(unpl) == 0 {
				continue
			}
			u := unpl[rng.Intn(len(unpl))]
			role := unitRole(u)
			opDesc = "bestmove(" + role + ")"
			if role != "stops" && role != "stops-multi" {
				touchedNested = true
			}
			var mv nextroute.SolutionMove
			if doPanic(opDesc, func() { mv = sol.BestMove(ctx, u) }) {
				return
			}
			if !tainted && !snapSame(snapOf(b, sol), before) {
				violate("C18", "best-move-changed-solution", role+"|"+changedParts(before, snapOf(b, sol)), "BestMove query changed the observable solution: "+diffSnap(before, snapOf(b, sol)))
			}
			if su, ok := u.(nextroute.SolutionPlanStopsUnit); ok {
				// units of 4 stops (up to 24 orders) on short routes only: the enumeration grows with C(route+4, 4)
				planned := 0
				for _, v := range sol.Vehicles() {
					planned += v.NumberOfStops()
				}
				if n := len(su.SolutionStops()); n <= 3 || (n == 4 && planned <= 5) {
					bestMoveOracle(o, hc, sol, su, mv, role)
					o.Count(fmt.Sprintf("c10-oracle:unit-stops=%d", n))
				}
			}
			if su, ok := u.(nextroute.SolutionPlanStopsUnit); ok && len(su.SolutionStops()) >= 2 && len(su.SolutionStops()) <= 4 && !tainted {
				genCorrespondence(o, rng, sol, su)
			}
			exe := mv.IsExecutable()
			if exe && pending == nil && staleCase && rng.Intn(3) == 0 {
				// keep the move and execute it later, after the solution has changed (a stale but
				// structurally valid move: Execute must either apply it or reject it cleanly)
				pending, pendingUnit, pendingRole = mv, u, role
				removedSince = false
				fillLeft = 2 + rng.Intn(4)
				opDesc = "bestmove-kept(" + role + ")"
				hc.Ops = append(hc.Ops, opDesc)
				observe(sol, opDesc)
				continue
			}
			var ok bool
			var e error
			rec.reset()
			lk := linksBeforeExecute(sol, mv)
			eo := engC.beforeExecute(sol, mv)
			if doPanic(opDesc+".Execute", func() { ok, e = mv.Execute(ctx) }) {
				return
			}
			if e != nil {
				violate("C16", "engine-error", "Execute", e.Error())
				return
			}
			lk.afterExecute(o, sol, ok)
			if !tainted {
				eo.after(o, sol, ok)
			}
			if exe {
				collLine = execLine(mv, ok)
			} else {
				collLine = "nop"
			}
			o.Count("bestmove:" + fmt.Sprintf("exe=%v,ok=%v", exe, ok))
			if exe && !ok {
				rejectedKinds["bestmove-"+role] = true
				// C09 is about models built from the JSON schema: under a user constraint with an optimistic
				// estimate a rejected executable move is exactly what C19 expects
				if uc == nil {
					violate("C09", "executable-move-rejected", role, fmt.Sprintf("best move for %s unit is executable, Execute returned false (step %d)", role, step))
				}
			}
			if !ok && !snapSame(snapOf(b, sol), before) {
				violate("C07", "rejected-execute-changed-solution", role+"|"+changedParts(before, snapOf(b, sol)), diffSnap(before, snapOf(b, sol)))
			}
			if ok && !u.IsPlanned() {
				violate("C07", "execute-succeeded-unit-not-planned", role, "Execute returned true, unit is not planned")
			}
		case kind < 55: // explicit move at a random placement (stops-units, root or member)
			var cands []nextroute.SolutionPlanStopsUnit
			// root stops-units only: planning a member of a units-unit on its own is not something the
			// engine offers (BestMove works on root units) and the properties do not quantify over it
			for _, u := range unitsOf(sol, func(u nextroute.SolutionPlanUnit) bool { return true }) {
				if su, ok := u.(nextroute.SolutionPlanStopsUnit); ok && !su.IsPlanned() {
					cands = append(cands, su)
				}
			}
			if len(cands) == 0 {
				continue
			}
			su := cands[rng.Intn(len(cands))]
			vehicles := sol.Vehicles()
			v := vehicles[rng.Intn(len(vehicles))]
			var forcedUnit nextroute.SolutionPlanStopsUnit
			back := 1
			if len(forced) > 0 {
				si := forced[0].stop
				back = forced[0].back
				forced = forced[1:]
				if si < len(bt.model.Stops()) {
					if st := sol.SolutionStop(bt.model.Stops()[si]); !st.IsZero() && !st.IsPlanned() {
						fu := st.PlanStopsUnit()
						_, member := fu.ModelPlanUnit().PlanUnitsUnit()
						if len(fu.SolutionStops()) == 1 && !member && !fu.IsFixed() {
							forcedUnit = fu
						}
					}
				}
				if forcedUnit == nil {
					forced = nil
					o.Count("forced-script-abandoned:unit-not-placeable")
					continue
				}
				su, v = forcedUnit, vehicles[0]
			}
			role := unitRole(su)
			opDesc = "newmove(" + role + ")"
			rec.reset()
			rec.keepEsts = true
			var mv nextroute.SolutionMoveStops
			if forcedUnit != nil {
				target := v.SolutionStops()
				if len(target)-back < 1 {
					forced = nil
					o.Count("forced-script-abandoned:route-too-short")
					continue
				}
				mv, _ = moveAt(su, su.SolutionStops(), target, []int{len(target) - back})
				o.Count("forced-placement")
			} else {
				mv = randomPlacement(rng, su, v)
			}
			rec.keepEsts = false
			if mv == nil {
				continue
			}
			if !tainted {
				estCorrespondence(o, rec, mv, v)
				// estimate sweep: for a multi-stop unit, the estimates of (a sample of) ALL its placements on this
				// vehicle are compared with the models, not only the one that is executed — an early exit that is
				// wrong only for a particular shape (an unchanged planned stop between two inserted stops, …) is
				// reached by enumeration rather than by luck
				if n := len(su.SolutionStops()); n >= 1 && n <= 3 && v.NumberOfStops() <= 6 {
					srng := rand.New(rand.NewSource(hc.Seed + int64(step)*7919))
					target := v.SolutionStops()
					cs := combos(n, len(target)-1)
					orders := allowedOrders(su)
					type placement struct{ o, g int }
					var all []placement
					for oi := range orders {
						for gi := range cs {
							all = append(all, placement{oi, gi})
						}
					}
					srng.Shuffle(len(all), func(i, j int) { all[i], all[j] = all[j], all[i] })
					if len(all) > 150 {
						all = all[:150]
					}
					for _, pl := range all {
						gaps, order := cs[pl.g], orders[pl.o]
						if splitsDirectPair(target, gaps) || separatesOwnDirectPair(order, gaps) {
							continue
						}
						rec.keepEsts = true
						m2, err2 := moveAt(su, order, target, gaps)
						rec.keepEsts = false
						if err2 != nil || m2 == nil {
							continue
						}
						estCorrespondence(o, rec, m2, v)
						o.Count("est-sweep-placements")
						tagN++
						hypLine(o, fmt.Sprintf("c%d.%d.sweep(%s)", ci, tagN, role), m2)
					}
				}
			}
			exe := mv.IsExecutable()
			var ok bool
			var e error
			rec.reset()
			lk := linksBeforeExecute(sol, mv)
			eo := engC.beforeExecute(sol, mv)
			if doPanic(opDesc+".Execute", func() { ok, e = mv.Execute(ctx) }) {
				return
			}
			if e != nil {
				violate("C16", "engine-error", "Execute", e.Error())
				return
			}
			lk.afterExecute(o, sol, ok)
			if !tainted {
				eo.after(o, sol, ok)
			}
			if exe {
				collLine = execLine(mv, ok)
			} else {
				collLine = "nop"
			}
			o.Count("newmove:" + fmt.Sprintf("exe=%v,ok=%v", exe, ok))
			if exe && !ok {
				rejectedKinds["newmove-"+role] = true
				if uc == nil {
					violate("C09", "executable-move-rejected", role+"|explicit", fmt.Sprintf("explicit move for %s unit is executable, Execute returned false", role))
				}
			}
			if !ok && !snapSame(snapOf(b, sol), before) {
				violate("C07", "rejected-execute-changed-solution", role+"|"+changedParts(before, snapOf(b, sol)), diffSnap(before, snapOf(b, sol)))
			}
		case kind < 75: // un-plan a root unit, sometimes a member
			pl := unitsOf(sol, func(u nextroute.SolutionPlanUnit) bool { return u.IsPlanned() })
			if len(pl) == 0 {
				continue
			}
			var u nextroute.SolutionPlanUnit = pl[rng.Intn(len(pl))]
			if len(forced) > 0 && !forced[0].plan {
				si := forced[0].stop
				forced = forced[1:]
				st := sol.SolutionStop(bt.model.Stops()[si])
				if st.IsZero() || !st.IsPlanned() {
					continue
				}
				u = st.PlanStopsUnit()
				o.Count("forced-unplan")
			} else if _, isUU := u.(nextroute.SolutionPlanUnitsUnit); isUU {
				touchedNested = true
				if rng.Intn(3) == 0 {
					ms := memberStopsUnits(u)
					var planned []nextroute.SolutionPlanStopsUnit
					for _, m := range ms {
						if m.IsPlanned() {
							planned = append(planned, m)
						}
					}
					if len(planned) > 0 {
						u = planned[rng.Intn(len(planned))]
					}
				}
			}
			role := unitRole(u)
			opDesc = "unplan(" + role + ")"
			var ok bool
			var e error
			rec.reset()
			// does the removal delay the end of a vehicle (non-metric matrix, duration groups)? — the case in which
			// un-planning needs its temporal re-validation
			endBefore := map[int]float64{}
			tailUnit := false
			for _, vv := range sol.Vehicles() {
				endBefore[vv.Index()] = vv.Last().ArrivalValue()
			}
			if su, isStops := u.(nextroute.SolutionPlanStopsUnit); isStops && len(su.SolutionStops()) > 0 {
				sts := su.SolutionStops()
				tailUnit = sts[len(sts)-1].Next().IsLast()
			}
			lku := linksBeforeUnplan(sol, u)
			eou := engC.beforeUnplan(sol, u)
			var forbidVeh nextroute.SolutionVehicle
			if su, isStops := u.(nextroute.SolutionPlanStopsUnit); isStops && uc != nil && rng.Intn(3) == 0 && len(su.SolutionStops()) > 0 {
				mine := map[int]bool{}
				for _, st := range su.SolutionStops() {
					mine[st.ModelStop().Index()] = true
				}
				forbidVeh = su.SolutionStops()[0].Vehicle()
				forbid.sig = routeSigWithout(forbidVeh, func(st nextroute.SolutionStop) bool { return mine[st.ModelStop().Index()] })
				o.Count("forbid:unplan-stops-unit")
			}
			if doPanic(opDesc, func() { ok, e = u.UnPlan() }) {
				return
			}
			if e == nil && ok && forbid.sig != "" && routeSig(forbidVeh) == forbid.sig {
				// the un-plan produced exactly the route the (vehicle-level) user constraint forbids and reported success
				o.Violate(Violation{Property: "C19", Clause: "user-constraint-violated", Sig: "C19|user-constraint-violated|forbid|after-" + opDesc,
					Detail: "the route-forbidding user constraint (temporal=" + b01(fc.temporal) + ") is violated after an accepted un-plan: " + forbid.sig, Replay: hc})
			}
			forbid.sig = ""
			if e == nil {
				lku.afterUnplan(o, sol, ok)
				if !tainted {
					eou.after(o, sol, ok)
				}
			}
			if _, nested := u.(nextroute.SolutionPlanUnitsUnit); nested {
				collLine = fmt.Sprintf("unplanUnitsR %d %s", cu(u.ModelPlanUnit().Index()), bits("unplan"))
				collSuffix = " ok=" + b01(ok)
			} else {
				collLine = fmt.Sprintf("unplanStops %d %s", cu(u.ModelPlanUnit().Index()), b01(ok))
			}
			if e != nil {
				violate("C16", "engine-error", "UnPlan", e.Error())
				return
			}
			o.Count("unplan:" + role + fmt.Sprintf(":ok=%v", ok))
			if ok {
				for _, vv := range sol.Vehicles() {
					if vv.Last().ArrivalValue() > endBefore[vv.Index()] {
						o.Count("unplan:accepted-and-vehicle-ends-later")
						if tailUnit {
							o.Count("unplan:accepted-tail-unit-and-vehicle-ends-later")
						}
					}
				}
			} else if tailUnit {
				o.Count("unplan:rejected-tail-unit")
			}
			removedSince = true
			after := snapOf(b, sol)
			if !ok {
				rejectedKinds["unplan-"+role] = true
				if !snapSame(after, before) {
					violate("C07", "rejected-unplan-changed-solution", role+"|"+changedParts(before, after), diffSnap(before, after))
				}
			} else if u.IsPlanned() {
				violate("C07", "unplan-succeeded-unit-still-planned", role, "UnPlan returned true, unit is still planned")
			} else {
				for _, m := range memberStopsUnits(u) {
					if m.IsPlanned() && !strings.Contains(role, "oneof") {
						violate("C07", "unplan-succeeded-member-still-planned", role, "UnPlan returned true, a member is still on a route")
						break
					}
				}
			}
		case kind < 82: // vehicle-level un-plan
			vehicles := sol.Vehicles()
			v := vehicles[rng.Intn(len(vehicles))]
			scripted := len(forced) > 0 && forced[0].veh
			if scripted {
				forced = forced[1:]
				v = vehicles[0]
			}
			opDesc = "vehicle-unplan"
			n := v.NumberOfStops()
			var ok bool
			var e error
			var vus []int
			seenU := map[int]bool{}
			for _, st := range v.SolutionStops() {
				if removableByVehicleUnplan(sol, st) {
					id := cu(st.PlanStopsUnit().ModelPlanUnit().Index())
					if !seenU[id] {
						seenU[id] = true
						vus = append(vus, id)
					}
				}
			}
			if uc != nil && len(vus) > 0 && (rng.Intn(2) == 0 || scripted) {
				if scripted {
					o.Count("forbid:vehicle-unplan-scripted")
				}
				forbid.sig = routeSigWithout(v, func(st nextroute.SolutionStop) bool { return removableByVehicleUnplan(sol, st) })
				o.Count("forbid:vehicle-unplan")
			}
			eov := engC.beforeVehicleUnplan(sol, v)
			if doPanic(opDesc, func() { ok, e = v.Unplan() }) {
				return
			}
			if e == nil && ok && forbid.sig != "" && routeSig(v) == forbid.sig {
				o.Violate(Violation{Property: "C19", Clause: "user-constraint-violated", Sig: "C19|user-constraint-violated|forbid|after-" + opDesc,
					Detail: "the route-forbidding user constraint (temporal=" + b01(fc.temporal) + ") is violated after an accepted vehicle un-plan: " + forbid.sig, Replay: hc})
			}
			forbid.sig = ""
			if e == nil && !tainted {
				eov.after(o, sol, ok)
			}
			collLine = fmt.Sprintf("vehicleUnplan %s %s", csvI(vus), b01(ok))
			if len(vus) == 0 {
				collLine = "nop"
			}
			if e != nil {
				violate("C16", "engine-error", "Vehicle.Unplan", e.Error())
				return
			}
			after := snapOf(b, sol)
			o.Count(fmt.Sprintf("vehicle-unplan:ok=%v", ok))
			if !ok && len(vus) > 0 {
				o.Count("vehicle-unplan:rolled-back")
				for _, id := range vus {
					if bt.d.parent[id] >= 0 {
						o.Count("vehicle-unplan:rolled-back-with-nested-member")
						break
					}
				}
			}
			removedSince = true
			if !ok && !snapSame(after, before) {
				violate("C07", "rejected-unplan-changed-solution", "vehicle|"+changedParts(before, after), diffSnap(before, after))
			}
			if ok && n > 0 {
				left := 0
				for _, s := range v.SolutionStops() {
					if removableByVehicleUnplan(sol, s) {
						left++
					}
				}
				if left > 0 {
					rejectedKinds["vehicle-unplan"] = true
					violate("C07", "vehicle-unplan-reported-success-without-unplanning", "vehicle",
						fmt.Sprintf("Unplan returned true, %d non-fixed stops are still on the vehicle", left))
				}
			}
		case kind < 92: // copy; continue on the copy or on the original
			opDesc = "copy"
			var cp nextroute.Solution
			if doPanic(opDesc, func() { cp = sol.Copy() }) {
				return
			}
			b2 := b
			if s2 := snapOf(b2, cp); !snapSame(s2, before) {
				violate("C11", "copy-differs-from-original", "-", diffSnap(before, s2))
			}
			if !snapSame(snapOf(b, sol), before) {
				violate("C11", "copy-changed-original", "-", "Copy() changed the original")
			}
			o.Count("copy")
			// twin run: the same operations with the same random streams on the original and on the copy must
			// leave both in the same observable state (a copy that lost internal state behaves differently later)
			if !tainted {
				seedOps, seedRnd := rng.Int63(), rng.Int63()
				sol.SetRandom(rand.New(rand.NewSource(seedRnd)))
				cp.SetRandom(rand.New(rand.NewSource(seedRnd)))
				pa, pb := false, false
				func() {
					defer func() {
						if r := recover(); r != nil {
							pa = true
						}
					}()
					randomOps(rand.New(rand.NewSource(seedOps)), sol, 4)
				}()
				func() {
					defer func() {
						if r := recover(); r != nil {
							pb = true
						}
					}()
					randomOps(rand.New(rand.NewSource(seedOps)), cp, 4)
				}()
				sa, sb := snapOf(b, sol), snapOf(b, cp)
				if pa != pb || !snapSame(sa, sb) {
					violate("C11", "copy-behaves-differently-from-original", changedParts(sa, sb),
						fmt.Sprintf("same 4 operations, same random streams: original panicked=%v copy panicked=%v; %s", pa, pb, diffSnap(sa, sb)))
				}
				if pa || pb {
					return
				}
				o.Count("copy-twin-runs")
				collLine = ""
				before = sa // both sides moved on together
			}
			if fa, fb := feeDigest(sol), feeDigest(cp); fa != fb {
				violate("C11", "copy-differs-from-original", "expression-values", "from-stop expression values / cumulative values: original "+fa+" copy "+fb)
			}
			if rng.Intn(2) == 0 {
				shadow, shadowSnap = sol, before
				sol = cp
			} else {
				shadow, shadowSnap = cp, before
			}
			shadowFee = feeDigest(shadow)
		default: // solution check
			opDesc = "check"
			verb := []string{"low", "medium", "high"}[rng.Intn(3)]
			statesBefore := plannedStates(sol)
			var out any
			var e error
			rec.reset()
			if doPanic(opDesc, func() {
				out, e = check.SolutionCheck(sol, check.Options{Verbosity: verb, Duration: 5 * time.Second})
			}) {
				return
			}
			// did the check's probing meet a REJECTED un-plan (the precondition of the listed findings E16 / E34: the
			// units-unit UnPlan goes on after a rejected member)? A check that alters the solution without one is something else.
			rejected := "no-rejected-unplan"
			for _, ev := range rec.events {
				if ev.Kind == "unplan" && !ev.OK {
					rejected = "after-rejected-unplan"
				}
			}
			_ = out
			if e != nil {
				o.Count("check-error")
			}
			o.Count("check:" + verb)
			removedSince = true
			if after := snapOf(b, sol); !snapSame(after, before) {
				// which kinds of root units changed their planned state (the signature distinguishes the listed
				// finding — a probed GROUP left half planned, E16 — from anything else the check might alter); judged
				// even when the books were inconsistent before: the check must not alter the solution whatever its state
				culprit := plannedStateDiff(statesBefore, plannedStates(sol))
				o.Violate(Violation{Property: "C18", Clause: "check-changed-solution", Sig: "C18|check-changed-solution|" + culprit + "|" + changedParts(before, after) + "|" + verb + "|" + rejected,
					Detail: diffSnap(before, after), Replay: hc})
			}
			// what the check reports is judged on solutions whose books are in order (a solution the check itself has
			// torn — reported above — or one torn before has units that are listed unplanned with stops on a route:
			// "can be planned" has no meaning for them)
			if booksConsistent(sol) {
				checkTruthful(o, hc, sol, verb, violate)
			} else {
				o.Count("check-truthfulness-skipped:books-inconsistent")
			}
		}
		hc.Ops = append(hc.Ops, opDesc)
		observe(sol, opDesc)
		if !tainted {
			mixStates(o, sol)
		}
		if collLine == "nop" {
			collLine = "" // nothing modelled happened (the search of BestMove itself is not part of NR.Coll): resynchronise
		}
		collOp(collLine)
		newlyBroken := false
		for _, r := range inconsistentRoots(sol) {
			if _, ok := brokenBy[r]; !ok {
				brokenBy[r] = opDesc
				newlyBroken = true
			}
		}
		if newlyBroken {
			// C20 on the state in which a unit's filing first disagrees with its stops
			doPanic("format", func() { checkFormat(o, c, bt, sol, hc, "hist", whereOf) })
			o.Count("formatted-broken-states")
		}
		if !tainted && (!booksConsistent(sol) || !unplannedScoreFresh(bt, sol)) {
			tainted = true
			o.Count("tainted-by:" + opDesc)
		}
		if uc != nil {
			if w := solutionDataStale(sol, fc, fo); w != "" && !tainted {
				violate("C11", "solution-data-not-refreshed-or-shared", opDesc, "working solution: "+w)
			}
			if shadow != nil {
				if w := solutionDataStale(shadow, fc, fo); w != "" {
					violate("C11", "copy-shares-solution-data-with-original", opDesc, "other side of the last copy: "+w)
				}
			}
		}
		if shadow != nil {
			if f := feeDigest(shadow); f != shadowFee {
				violate("C11", "operation-on-one-side-changed-the-other", opDesc+"|expression-values", "from-stop expression values of the untouched solution: "+shadowFee+" -> "+f)
				shadowFee = f
			}
			if s := snapOf(b, shadow); !snapSame(s, shadowSnap) {
				violate("C11", "operation-on-one-side-changed-the-other", opDesc, diffSnap(shadowSnap, s))
				shadowSnap = s
			}
		}
	}
	// C20: the output of the final state lists every stop exactly once and agrees with the solution object
	if !doPanic("format", func() { checkFormat(o, c, bt, sol, hc, "hist", whereOf) }) {
		o.Count("formatted-final-states")
	}
	if uc != nil {
		o.CountN("uc-evaluations", uc.evaluated)
		o.CountN("uc-rejections", uc.rejected)
		if uc.rejected > 0 {
			rejectedKinds["uc"] = true
		}
	}
	if len(rejectedKinds) > 0 || touchedNested {
		var ks []string
		for k := range rejectedKinds {
			ks = append(ks, k)
		}
		sort.Strings(ks)
		key := c.featureKey() + "|" + strings.Join(ks, ",")
		if !distinct[key] {
			distinct[key] = true
			o.Distinct("histories-with-rollback-or-nested-units")
		}
	}
	for _, f := range c.Features {
		o.Count("feature:" + f)
	}
	o.Sample(map[string]any{"features": c.Features, "ops": hc.Ops, "uc": uc})
}

// changedParts: which parts of the snapshot differ (R routes, T times, S scores, B bookkeeping).
func changedParts(a, b string) string {
	fa, fb := strings.Fields(a), strings.Fields(b)
	var parts []string
	for i := range fa {
		if i < len(fb) && fa[i] != fb[i] && len(fa[i]) > 1 {
			if !snapSame(fa[i], fb[i]) {
				parts = append(parts, fa[i][:1])
			}
		}
	}
	return strings.Join(parts, "")
}

func diffSnap(a, b string) string {
	fa, fb := strings.Fields(a), strings.Fields(b)
	var d []string
	for i := range fa {
		if i < len(fb) && fa[i] != fb[i] {
			x, y := fa[i], fb[i]
			if len(x) > 300 {
				x = x[:300]
			}
			if len(y) > 300 {
				y = y[:300]
			}
			d = append(d, x+" -> "+y)
		}
	}
	return strings.Join(d, " ; ")
}

// randomPlacement builds an explicit move for a stops-unit on vehicle v at random gaps, in the unit's
// own stop order (or a random allowed order).
func randomPlacement(rng *rand.Rand, su nextroute.SolutionPlanStopsUnit, v nextroute.SolutionVehicle) nextroute.SolutionMoveStops {
	stops := su.SolutionStops()
	orders := allowedOrders(su)
	if len(orders) == 0 {
		return nil
	}
	order := orders[rng.Intn(len(orders))]
	target := v.SolutionStops()
	m := len(target) - 1
	gaps := make([]int, len(stops))
	for i := range gaps {
		gaps[i] = 1 + rng.Intn(m)
	}
	sort.Ints(gaps)
	if splitsDirectPair(target, gaps) || separatesOwnDirectPair(order, gaps) {
		return nil // such a placement is not one the engine would offer; outside the properties' quantifier
	}
	mv, err := moveAt(su, order, target, gaps)
	if err != nil {
		return nil
	}
	return mv
}

func moveAt(su nextroute.SolutionPlanStopsUnit, order []nextroute.SolutionStop, target nextroute.SolutionStops, gaps []int) (nextroute.SolutionMoveStops, error) {
	n := len(order)
	sps := make(nextroute.StopPositions, n)
	for i := 0; i < n; i++ {
		prev, next := target[gaps[i]-1], target[gaps[i]]
		if i > 0 && gaps[i-1] == gaps[i] {
			prev = order[i-1]
		}
		if i < n-1 && gaps[i+1] == gaps[i] {
			next = order[i+1]
		}
		sp, err := nextroute.NewStopPosition(prev, order[i], next)
		if err != nil {
			return nil, err
		}
		sps[i] = sp
	}
	return nextroute.NewMoveStops(su, sps)
}

// allowedOrders: every permutation of the unit's stops the DAG allows (direct arcs adjacent), using the
// model's own IsAllowed as the definition of "allowed" (the property's wording).
func allowedOrders(su nextroute.SolutionPlanStopsUnit) [][]nextroute.SolutionStop {
	stops := su.SolutionStops()
	n := len(stops)
	if n > 5 {
		return nil
	}
	var out [][]nextroute.SolutionStop
	perm := make([]int, n)
	for i := range perm {
		perm[i] = i
	}
	var rec func(k int)
	rec = func(k int) {
		if k == n {
			ms := make(nextroute.ModelStops, n)
			ss := make([]nextroute.SolutionStop, n)
			for i, p := range perm {
				ms[i] = stops[p].ModelStop()
				ss[i] = stops[p]
			}
			ok, err := su.ModelPlanStopsUnit().DirectedAcyclicGraph().IsAllowed(ms)
			if err == nil && ok {
				out = append(out, ss)
			}
			return
		}
		for i := k; i < n; i++ {
			perm[k], perm[i] = perm[i], perm[k]
			rec(k + 1)
			perm[k], perm[i] = perm[i], perm[k]
		}
	}
	rec(0)
	return out
}

func combos(n, m int) [][]int {
	var out [][]int
	cur := make([]int, 0, n)
	var rec func(lo int)
	rec = func(lo int) {
		if len(cur) == n {
			out = append(out, append([]int(nil), cur...))
			return
		}
		for x := lo; x <= m; x++ {
			cur = append(cur, x)
			rec(x)
			cur = cur[:len(cur)-1]
		}
	}
	rec(1)
	return out
}

// bestMoveOracle: BestMove vs the minimum over NewMoveStops on every enumerated placement (C10).
func bestMoveOracle(o *Out, hc any, sol nextroute.Solution, su nextroute.SolutionPlanStopsUnit, mv nextroute.SolutionMove, role string) {
	orders := allowedOrders(su)
	best := math.Inf(1)
	any := false
	count := 0
	for _, v := range sol.Vehicles() {
		target := v.SolutionStops()
		for _, order := range orders {
			for _, g := range combos(len(order), len(target)-1) {
				if splitsDirectPair(target, g) || separatesOwnDirectPair(order, g) {
					continue // "keeping other units' direct pairs adjacent" (and the unit's own)
				}
				if histRec != nil {
					histRec.reset()
					histRec.keepEsts = true
				}
				m, err := moveAt(su, order, target, g)
				if histRec != nil {
					histRec.keepEsts = false
				}
				if err != nil || m == nil {
					continue
				}
				if histRec != nil && count%3 == 0 {
					estCorrespondence(o, histRec, m, v)
				}
				count++
				if m.IsExecutable() {
					any = true
					if m.Value() < best {
						best = m.Value()
					}
				}
			}
		}
	}
	o.CountN("c10-placements-enumerated", count)
	o.Count("c10-oracle-queries")
	if len(orders) > sol.Model().SequenceSampleSize() {
		return
	}
	if mv.IsExecutable() != any {
		o.Violate(Violation{Property: "C10", Clause: "executable-mismatch", Sig: "C10|executable-mismatch|" + role,
			Detail: fmt.Sprintf("BestMove executable=%v, some accepted insertion exists=%v (%d placements)", mv.IsExecutable(), any, count), Replay: hc})
		return
	}
	if any && math.Abs(mv.Value()-best) > 1e-6*(1+math.Abs(best)) {
		clause := "not-cheapest"
		if mv.Value() < best {
			clause = "cheaper-than-any-enumerated"
		}
		o.Violate(Violation{Property: "C10", Clause: clause, Sig: "C10|" + clause + "|" + role,
			Detail: fmt.Sprintf("BestMove value %v, minimum over %d enumerated placements %v", mv.Value(), count, best), Replay: hc})
	}
}

// moveStillValid: every stop position of a (possibly nested) move still refers to planned, adjacent
// neighbours, or to stops of the move itself — the solution changed elsewhere, not under the move.
func moveStillValid(mv nextroute.SolutionMove) bool {
	switch m := mv.(type) {
	case nextroute.SolutionMoveStops:
		sps := m.StopPositions()
		own := map[int]bool{}
		for _, sp := range sps {
			own[sp.Stop().Index()] = true
		}
		for i, sp := range sps {
			if sp.Stop().IsPlanned() {
				return false
			}
			p, n := sp.Previous(), sp.Next()
			if !own[p.Index()] && !p.IsPlanned() {
				return false
			}
			if !own[n.Index()] && !n.IsPlanned() {
				return false
			}
			// the planned neighbours enclosing this run of own stops must still be adjacent
			if !own[p.Index()] {
				j := i
				for j < len(sps) && own[sps[j].Next().Index()] {
					j++
				}
				if j < len(sps) {
					nn := sps[j].Next()
					if !nn.IsPlanned() || p.IsLast() || p.Next().Index() != nn.Index() {
						return false
					}
				}
			}
		}
		return len(sps) > 0
	}
	return false
}

// genCorrespondence: the position generator of the real code (public test entry point) on one vehicle and
// one allowed order of the unit, as gap combinations, next to the inputs of NR.Gen.generate.
func genCorrespondence(o *Out, rng *rand.Rand, sol nextroute.Solution, su nextroute.SolutionPlanStopsUnit) {
	orders := allowedOrders(su)
	if len(orders) == 0 {
		return
	}
	order := orders[rng.Intn(len(orders))]
	vs := sol.Vehicles()
	v := vs[rng.Intn(len(vs))]
	target := v.SolutionStops()
	m := len(target) - 1
	var combos []string
	nextroute.SolutionMoveStopsGeneratorTest(v, su, func(mv nextroute.SolutionMoveStops) {
		sps := mv.StopPositions()
		gaps := make([]int, len(sps))
		for i := len(sps) - 1; i >= 0; i-- {
			if sps[i].Next().IsPlanned() {
				gaps[i] = sps[i].Next().Position()
			} else if i+1 < len(sps) {
				gaps[i] = gaps[i+1]
			}
		}
		ss := make([]string, len(gaps))
		for i, g := range gaps {
			ss[i] = fmt.Sprint(g)
		}
		combos = append(combos, strings.Join(ss, "."))
	}, nextroute.SolutionStops(order), nextroute.NewPreAllocatedMoveContainer(su), func() bool { return false })
	var bad, same []int
	for g := 2; g <= m; g++ {
		a, b := target[g-1].ModelStop(), target[g].ModelStop()
		if a.HasPlanStopsUnit() && a.PlanStopsUnit().DirectedAcyclicGraph().HasDirectArc(a, b) {
			bad = append(bad, g)
		}
	}
	for j := 1; j < len(order); j++ {
		a, b := order[j-1].ModelStop(), order[j].ModelStop()
		if a.PlanStopsUnit().DirectedAcyclicGraph().HasDirectArc(a, b) {
			same = append(same, j)
		}
	}
	ans := "-"
	if len(combos) > 0 {
		ans = strings.Join(combos, ";")
	}
	o.Op(fmt.Sprintf("gen %d %d %s %s", len(order), m, csvI(bad), csvI(same)), "gen "+ans)
	o.Count("gen-correspondence")
	if len(bad)+len(same) > 0 {
		o.Count("gen-correspondence-with-direct-pairs")
	}
}

// estCorrespondence: for every Maximum constraint (capacity per resource, distance limit) whose estimate was
// evaluated for this move, the numbers the estimate reads — derived here from the public API — next to the
// verdict it gave; NR.Estimate recomputes the verdict.
func estCorrespondence(o *Out, rec *recorder, mv nextroute.SolutionMoveStops, v nextroute.SolutionVehicle) {
	sps := mv.StopPositions()
	if len(sps) == 0 {
		return
	}
	target := v.SolutionStops()
	gaps := make([]int, len(sps))
	for i := len(sps) - 1; i >= 0; i-- {
		if sps[i].Next().IsPlanned() {
			gaps[i] = sps[i].Next().Position()
		} else if i+1 < len(sps) {
			gaps[i] = gaps[i+1]
		}
	}
	// hypothetical route
	var hyp []nextroute.SolutionStop
	k := 0
	for pos, st := range target {
		for k < len(sps) && gaps[k] == pos {
			hyp = append(hyp, sps[k].Stop())
			k++
		}
		hyp = append(hyp, st)
	}
	firstIns, nextIdx := -1, -1
	for i, st := range hyp {
		if !st.IsPlanned() {
			if firstIns < 0 {
				firstIns = i
			}
			nextIdx = i + 1
		}
	}
	if firstIns < 1 || nextIdx >= len(hyp) {
		return
	}
	vt := v.ModelVehicle().VehicleType()
	stopGenCorrespondence(o, mv, v, gaps)
	mixEst(o, rec, mv, v, gaps)
	waitEstCorrespondence(o, rec, mv, v, hyp, firstIns, len(sps))
	for _, ev := range rec.ests {
		mx, ok := ev.Constraint.(nextroute.Maximum)
		if !ok || ev.Move != nextroute.SolutionMove(mv) {
			continue
		}
		e := mx.Expression()
		maximum := mx.Maximum().Value(vt, nil, nil)
		val := func(i int) float64 { return e.Value(vt, hyp[i-1].ModelStop(), hyp[i].ModelStop()) }
		var win, tail []string
		delta, noEffect := 0.0, true
		for i := firstIns; i <= nextIdx; i++ {
			win = append(win, rat(val(i)))
		}
		for i := nextIdx + 1; i < len(hyp); i++ {
			tail = append(tail, rat(val(i)))
		}
		for _, sp := range sps {
			x := 1.0 // not a per-stop expression: the unit always has an effect
			if isToStopExpression(e) {
				x = e.Value(nil, nil, sp.Stop().ModelStop())
			}
			delta += x
			if x != 0 {
				noEffect = false
			}
		}
		isStopExpr := isToStopExpression(e)
		regime := "general"
		switch {
		case isStopExpr && !e.HasNegativeValues() && noEffect:
			regime = "noeffect"
		case e.HasNegativeValues() && !e.HasPositiveValues():
			regime = "allnegative"
		case isStopExpr && !e.HasNegativeValues():
			regime = "const"
		}
		base := hyp[firstIns-1].CumulativeValue(e)
		oldCumNext := hyp[nextIdx].CumulativeValue(e)
		oldLast := v.Last().CumulativeValue(e)
		line := fmt.Sprintf("est max %s %s %s %s %s %s %s %s %s", regime, rat(maximum), rat(base), csvS(win), csvS(tail),
			rat(oldCumNext), rat(oldLast), b01(e.HasNegativeValues()), rat(delta))
		o.Op(line, "est "+b01(ev.Violated))
		o.Count("est-correspondence:" + regime)
	}
}

// splitsDirectPair: does some chosen gap lie between two target stops tied by a direct precedence?
func splitsDirectPair(target nextroute.SolutionStops, gaps []int) bool {
	for _, g := range gaps {
		if g < 2 || g >= len(target) {
			continue
		}
		a, b := target[g-1].ModelStop(), target[g].ModelStop()
		if a.HasPlanStopsUnit() && a.PlanStopsUnit().DirectedAcyclicGraph().HasDirectArc(a, b) {
			return true
		}
	}
	return false
}

// separatesOwnDirectPair: two consecutive stops of the order tied by a direct arc placed in different gaps.
func separatesOwnDirectPair(order []nextroute.SolutionStop, gaps []int) bool {
	for i := 0; i+1 < len(order); i++ {
		a, b := order[i].ModelStop(), order[i+1].ModelStop()
		if a.HasPlanStopsUnit() && a.PlanStopsUnit().DirectedAcyclicGraph().HasDirectArc(a, b) && gaps[i] != gaps[i+1] {
			return true
		}
	}
	return false
}

// checkTruthful: a unit the check reports as plannable can be planned on that solution (on a copy).
func checkTruthful(o *Out, hc *histCase, sol nextroute.Solution, verb string, violate func(prop, clause, sigExtra, detail string)) {
	// at the verbosity the history drew (the three levels take different paths through the check); under a user
	// constraint with an optimistic estimate failed moves are expected (C19), the truthfulness of "plannable" is not
	out, err := check.SolutionCheck(sol, check.Options{Verbosity: verb, Duration: 5 * time.Second})
	if err != nil {
		return
	}
	if !booksConsistent(sol) {
		// this run of the check has torn a group (E16; the observation that follows reports it)
		o.Count("check-truthfulness-skipped:books-inconsistent")
		return
	}
	if hc.UC == nil && (out.Summary.MovesFailed > 0 || out.Summary.PlanUnitsBestMoveFailed > 0) {
		violate("C09", "check-reports-failed-moves", "check", fmt.Sprintf("check summary: moves_failed=%d plan_units_best_move_failed=%d",
			out.Summary.MovesFailed, out.Summary.PlanUnitsBestMoveFailed))
	}
	for _, pu := range out.PlanUnits {
		if !pu.HasPlannableBestMove {
			continue
		}
		o.Count("check-reports-plannable")
		// alternate stops carry the same id on every vehicle that lists them: try every unplanned unit with
		// this set of stop ids, the report is truthful if one of them can be planned
		found, planned := false, false
		role := ""
		for idx := range sol.UnPlannedPlanUnits().SolutionPlanUnits() {
			cp := sol.Copy()
			u := cp.UnPlannedPlanUnits().SolutionPlanUnits()[idx]
			if u.IsPlanned() || !sameIDs(unitStopIDs(u), pu.Stops) {
				continue
			}
			if _, nested := u.(nextroute.SolutionPlanUnitsUnit); nested {
				// units of units are searched greedily in a random member order: a second search may
				// fail where the check's own search (which did execute its move) succeeded
				found = false
				break
			}
			found = true
			role = unitRole(u)
			mv := cp.BestMove(context.Background(), u)
			ok, e := mv.Execute(context.Background())
			if e == nil && ok {
				planned = true
				break
			}
			if hc.UC != nil {
				// under a user constraint with an optimistic estimate the single best move may be rejected where another
				// placement is accepted (the check probes vehicle by vehicle): decide by trying EVERY placement
				switch canBePlannedSomewhere(sol, idx) {
				case 1:
					planned = true
				case -1:
					found = false // too many placements to enumerate: no verdict
				}
				if planned || !found {
					break
				}
			}
		}
		if found && !planned {
			violate("C18", "reported-plannable-but-cannot-be-planned", role, fmt.Sprintf("unit %v reported plannable; no such unit could be planned", pu.Stops))
		}
	}
}

func unitStopIDs(u nextroute.SolutionPlanUnit) []string {
	var ids []string
	for _, m := range memberStopsUnits(u) {
		for _, s := range m.SolutionStops() {
			ids = append(ids, s.ModelStop().ID())
		}
	}
	sort.Strings(ids)
	return ids
}

func sameIDs(a []string, b []string) bool {
	bb := append([]string(nil), b...)
	sort.Strings(bb)
	if len(a) != len(bb) {
		return false
	}
	for i := range a {
		if a[i] != bb[i] {
			return false
		}
	}
	return true
}

// waitEstCorrespondence: the two waiting-time estimates against NR.WaitEst, on what they read: the hypothetical
// route from the stop before the first inserted stop (travel duration, windows, process duration given the
// predecessor in the walk, the stop's own wait limit) and what is stored for the planned stops (arrival, end,
// accumulated wait of the current predecessor, accumulated wait at the vehicle's last stop). The accumulated
// waits are recomputed from the stored arrival and start values (the constraint's stop data is not exported).
func waitEstCorrespondence(o *Out, rec *recorder, mv nextroute.SolutionMoveStops, v nextroute.SolutionVehicle,
	hyp []nextroute.SolutionStop, firstIns, cnt int) {
	var vehC nextroute.MaximumWaitVehicleConstraint
	var stopC nextroute.MaximumWaitStopConstraint
	var vehEv, stopEv *estEvent
	for i := range rec.ests {
		ev := &rec.ests[i]
		if ev.Move != nextroute.SolutionMove(mv) {
			continue
		}
		if c, ok := ev.Constraint.(nextroute.MaximumWaitVehicleConstraint); ok {
			vehC, vehEv = c, ev
		}
		if c, ok := ev.Constraint.(nextroute.MaximumWaitStopConstraint); ok {
			stopC, stopEv = c, ev
		}
	}
	type latestEv struct {
		c   nextroute.LatestStart
		ev  *estEvent
		ref string
	}
	var latests []latestEv
	for i := range rec.ests {
		ev := &rec.ests[i]
		if ev.Move != nextroute.SolutionMove(mv) {
			continue
		}
		if c, ok := ev.Constraint.(nextroute.LatestStart); ok {
			switch fmt.Sprint(ev.Constraint) {
			case "late_start_penalty":
				latests = append(latests, latestEv{c, ev, "start"})
			case "late_end_penalty":
				latests = append(latests, latestEv{c, ev, "finish"})
			case "late_arrival_penalty":
				latests = append(latests, latestEv{c, ev, "arrival"})
			}
		}
	}
	if vehEv == nil && stopEv == nil && len(latests) == 0 {
		return
	}
	vt := v.ModelVehicle().VehicleType()
	acc := map[int]float64{} // solution stop index → accumulated wait stored there
	a := 0.0
	stops := v.SolutionStops()
	for i, st := range stops {
		if i > 0 && i < len(stops)-1 {
			a += st.StartValue() - st.ArrivalValue()
		}
		acc[st.Index()] = a
	}
	lastAcc := a
	timeDep := vt.TravelDurationExpression().IsDependentOnTime()
	from := hyp[firstIns-1]
	pe := from.EndValue()
	var items []string
	prevEnd := pe
	remaining := cnt
	betweenUnchanged := false
	for i := firstIns; i < len(hyp); i++ {
		to := hyp[i]
		travel, _, start, end := vt.TemporalValues(prevEnd, hyp[i-1].ModelStop(), to.ModelStop())
		wins := "-"
		if ws := to.ModelStop().Windows(); len(ws) > 0 {
			var parts []string
			for _, w := range ws {
				parts = append(parts, rat(float64(w[0].Unix()))+"~"+rat(float64(w[1].Unix())))
			}
			wins = strings.Join(parts, ",")
		} else if es := to.ModelStop().EarliestStart(); !es.IsZero() && es.Unix() > 0 {
			// a bare earliest start behaves like a window that never closes
			wins = rat(float64(es.Unix())) + "~" + rat(1e12)
		}
		mw := 0.0
		if stopC != nil {
			mw = stopC.Maximum().Value(nil, nil, to.ModelStop())
		}
		cArr, cEnd, cPrev := 0.0, 0.0, 0.0
		if to.IsPlanned() {
			cArr, cEnd = to.ArrivalValue(), to.EndValue()
			cPrev = acc[to.Previous().Index()]
			if remaining == 0 && !timeDep && start <= to.StartValue() && end > cEnd {
				// keeps its start (it waits) and ends later (it pays its duration group's duration now): the stops behind it
				// are pushed although this one is "not pushed back"
				o.Count("latest-est:planned-stop-keeps-start-ends-later")
			}
			if remaining > 0 && !timeDep && prevEnd+travel == cArr && end == cEnd {
				o.Count("wait-est:unchanged-planned-stop-between-inserted-stops")
				if mw > 0 || stopC != nil {
					betweenUnchanged = true
				}
			}
		} else {
			remaining--
			if betweenUnchanged && stopC != nil && start-(prevEnd+travel) > mw {
				o.Count("wait-est:late-inserted-stop-over-its-wait-limit-behind-unchanged-stop")
			}
		}
		items = append(items, fmt.Sprintf("%s;%s;%s;%s;%s;%s;%s;%s", rat(travel), rat(end-start), b01(to.IsPlanned()), rat(mw),
			rat(cArr), rat(cEnd), rat(cPrev), wins))
		prevEnd = end
	}
	for _, le := range latests {
		var lat []string
		for i := firstIns; i < len(hyp); i++ {
			lat = append(lat, rat(le.c.Latest().Value(nil, nil, hyp[i].ModelStop())))
		}
		o.Op(fmt.Sprintf("est latest %s %s %s %s", le.ref, rat(pe), strings.Join(lat, ","), strings.Join(items, " ")), "est "+b01(le.ev.Violated))
		o.Count("est-correspondence:latest-" + le.ref)
	}
	if vehEv != nil {
		mx := vehC.Maximum().Value(vt, nil, nil)
		o.Op(fmt.Sprintf("est waitv %s %s %s %s %s %d %s", rat(mx), rat(lastAcc), b01(timeDep), rat(pe), rat(acc[from.Index()]), cnt,
			strings.Join(items, " ")), "est "+b01(vehEv.Violated))
		o.Count("est-correspondence:wait-vehicle")
	}
	if stopEv != nil {
		o.Op(fmt.Sprintf("est waits %s %s %d %s", b01(timeDep), rat(pe), cnt, strings.Join(items, " ")), "est "+b01(stopEv.Violated))
		o.Count("est-correspondence:wait-stop")
	}
}

// seqCorrespondence: the stop orders delivered by SequenceGeneratorChannel for a multi-stop unit against
// NR.Seq.orders (all orders the unit's DAG allows, each once; a prefix of `SequenceSampleSize` of them).
// Runs on a copy so that the history's own random stream is not disturbed.
func seqCorrespondence(o *Out, sol nextroute.Solution) {
	cp := sol.Copy()
	for _, u := range cp.UnPlannedPlanUnits().SolutionPlanUnits() {
		for _, su := range memberStopsUnits(u) {
			stops := su.SolutionStops()
			if len(stops) < 2 || len(stops) > 5 {
				continue
			}
			var ids, arcs, seqs []string
			for _, st := range stops {
				ids = append(ids, strconv.Itoa(st.Index()))
			}
			for _, a := range su.ModelPlanStopsUnit().DirectedAcyclicGraph().Arcs() {
				arcs = append(arcs, fmt.Sprintf("%d>%d>%s", cp.SolutionStop(a.Origin()).Index(), cp.SolutionStop(a.Destination()).Index(), b01(a.IsDirect())))
			}
			quit := make(chan struct{})
			for seq := range nextroute.SequenceGeneratorChannel(su, quit) {
				var q []string
				for _, st := range seq {
					q = append(q, strconv.Itoa(st.Index()))
				}
				seqs = append(seqs, strings.Join(q, "."))
			}
			close(quit)
			dash := func(l []string, sep string) string {
				if len(l) == 0 {
					return "-"
				}
				return strings.Join(l, sep)
			}
			o.Op(fmt.Sprintf("seq %d %s %s %s", cp.Model().SequenceSampleSize(), strings.Join(ids, ","), dash(arcs, ","), dash(seqs, "|")), "seq ok")
			o.Count(fmt.Sprintf("seq-correspondence:stops=%d,orders=%d", len(stops), len(seqs)))
		}
	}
}

var sgenCounter int

// stopGenCorrespondence: the public hypothetical-route iterator (NewSolutionStopGenerator) on this move against
// NR.StopGen.generate, and the move's stop positions against NR.StopGen.positions of its gaps.
func stopGenCorrespondence(o *Out, mv nextroute.SolutionMoveStops, v nextroute.SolutionVehicle, gaps []int) {
	sgenCounter++
	a, b := sgenCounter%2 == 1, (sgenCounter/2)%2 == 1
	var route, ins, poss, out []string
	for _, st := range v.SolutionStops() {
		route = append(route, strconv.Itoa(st.Index()))
	}
	for i, sp := range mv.StopPositions() {
		ins = append(ins, fmt.Sprintf("%d:%d", gaps[i], sp.Stop().Index()))
		poss = append(poss, fmt.Sprintf("%d:%d:%d", sp.Previous().Index(), sp.Stop().Index(), sp.Next().Index()))
	}
	g := nextroute.NewSolutionStopGenerator(mv, a, b)
	for st := g.Next(); !st.IsZero() && len(out) < 200; st = g.Next() {
		out = append(out, strconv.Itoa(st.Index()))
	}
	o.Op(fmt.Sprintf("sgen %s %s %s %s %s", strings.Join(route, ","), strings.Join(ins, ","), strings.Join(poss, ","), b01(a), b01(b)),
		"sgen "+strings.Join(out, ",")+" pos=1")
	o.Count(fmt.Sprintf("sgen-correspondence:inserted=%d", len(ins)))
}

// canBePlannedSomewhere: 1 if some placement of the idx-th unplanned unit (a stops-unit) executes successfully on a copy
// of the solution, 0 if none does, -1 if there are too many placements to try them all.
func canBePlannedSomewhere(sol nextroute.Solution, idx int) int {
	probe := sol.Copy()
	pu, ok := probe.UnPlannedPlanUnits().SolutionPlanUnits()[idx].(nextroute.SolutionPlanStopsUnit)
	if !ok {
		return -1
	}
	n := len(pu.SolutionStops())
	total := 0
	for _, v := range probe.Vehicles() {
		total += len(combos(n, len(v.SolutionStops())-1))
	}
	norders := len(allowedOrders(pu))
	if n > 3 || total*norders > 400 {
		return -1
	}
	for vi := range probe.Vehicles() {
		m := len(probe.Vehicles()[vi].SolutionStops()) - 1
		for _, gaps := range combos(n, m) {
			for oi := 0; oi < norders; oi++ {
				cp := sol.Copy()
				u := cp.UnPlannedPlanUnits().SolutionPlanUnits()[idx].(nextroute.SolutionPlanStopsUnit)
				orders := allowedOrders(u)
				if oi >= len(orders) {
					continue
				}
				target := cp.Vehicles()[vi].SolutionStops()
				if splitsDirectPair(target, gaps) || separatesOwnDirectPair(orders[oi], gaps) {
					continue
				}
				mv, err := moveAt(u, orders[oi], target, gaps)
				if err != nil || mv == nil || !mv.IsExecutable() {
					continue
				}
				if ok, e := mv.Execute(context.Background()); e == nil && ok {
					return 1
				}
			}
		}
	}
	return 0
}

// isToStopExpression: a per-stop expression whose value at a stop is a property of THAT stop. (A FromStopExpression has
// the same method set as a StopExpression — a type assertion cannot tell them apart; the library's own test of this
// kind was defect E45.)
func isToStopExpression(e nextroute.ModelExpression) bool {
	if _, ok := e.(nextroute.StopExpression); !ok {
		return false
	}
	return !strings.Contains(fmt.Sprintf("%T", e), "fromExpression")
}
