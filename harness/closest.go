package main

// Stream `closest` (C12, E43): the nearest-stops queries behind ModelStop.ClosestStops — the list the island un-plan
// operators walk. Stops are laid out so that many are EXACTLY equally far from each other (a grid, a line, clusters of
// stops at one location); every query is answered by the code on a freshly built query object (its k-d tree draws its
// pivots from a process-wide random source, so the visiting order differs from object to object) and by
// NR.Closest.nearest on the candidates in stop order. The distance keys handed to the model are the RANKS of the squared
// haversine distances (computed with the public common.Haversine, the function the code's wrapper uses), so the ties are
// the code's ties. On the code's own values: the same query on three objects built from the same stops gives the same
// list, and ModelStop.ClosestStops of two models built from the same data agree.

import (
	"fmt"
	"math/rand"
	"sort"
	"strings"

	"github.com/nextmv-io/nextroute"
	"github.com/nextmv-io/nextroute/common"
)

func init() { streams["closest"] = runClosest }

type closestCase struct {
	Layout string       `json:"layout"`
	Pts    [][2]float64 `json:"pts"` // lon, lat
	Ns     []int        `json:"ns"`
}

func genClosestCase(rng *rand.Rand) closestCase {
	c := closestCase{}
	n := 3 + rng.Intn(60)
	switch rng.Intn(4) {
	case 0:
		c.Layout = "grid"
		w := 2 + rng.Intn(8)
		for i := 0; i < n; i++ {
			c.Pts = append(c.Pts, [2]float64{4.0 + float64(i%w)*0.0025, 52.0 + float64(i/w)*0.0025})
		}
	case 1:
		c.Layout = "line"
		for i := 0; i < n; i++ {
			c.Pts = append(c.Pts, [2]float64{4.0 + float64(i)*0.01, 52.0})
		}
	case 2:
		c.Layout = "clusters"
		k := 1 + rng.Intn(5)
		for i := 0; i < n; i++ {
			j := rng.Intn(k)
			c.Pts = append(c.Pts, [2]float64{4.0 + float64(j)*0.02, 52.0 + float64(j%2)*0.02})
		}
	default:
		c.Layout = "random-with-repeats"
		for i := 0; i < n; i++ {
			if i > 0 && rng.Intn(3) == 0 {
				c.Pts = append(c.Pts, c.Pts[rng.Intn(i)])
			} else {
				c.Pts = append(c.Pts, [2]float64{4.0 + float64(rng.Intn(40))*0.001, 52.0 + float64(rng.Intn(40))*0.001})
			}
		}
	}
	for _, x := range []int{0, 1, 2, 5, 20, n - 1, n, n + 3} {
		if rng.Intn(2) == 0 || x == 20 {
			c.Ns = append(c.Ns, x)
		}
	}
	return c
}

func runClosest(o *Out, _ *rand.Rand, thorough bool) {
	n := 60
	if thorough {
		n = 1500
	}
	if replayFile != "" {
		n = 1
	}
	o.Meta.Rule = "a case = a layout of stops × the query sizes; every (stop, n) query is one compared line; non-trivial = a query " +
		"whose cut falls between equally distant stops; distinct by (layout, number of stops)"
	for ci := 0; ci < n; ci++ {
		c := genClosestCase(o.CaseRng(ci))
		if replayFile != "" {
			c = closestCase{} // a replay is the whole case: nothing of the generated one may shine through fields the file omits
			loadReplayInto(replayFile, &c)
		}
		if !o.BeginCase(ci, c) {
			continue
		}
		o.Meta.Cases++
		runClosestCase(o, &c)
	}
}

func buildClosestModel(c *closestCase) (nextroute.Model, error) {
	model, err := nextroute.NewModel()
	if err != nil {
		return nil, err
	}
	for i, p := range c.Pts {
		l, err := common.NewLocation(p[0], p[1])
		if err != nil {
			return nil, err
		}
		s, err := model.NewStop(l)
		if err != nil {
			return nil, err
		}
		s.SetID(fmt.Sprintf("s%d", i))
		if _, err := model.NewPlanSingleStop(s); err != nil {
			return nil, err
		}
	}
	return model, nil
}

func runClosestCase(o *Out, c *closestCase) {
	defer func() {
		if r := recover(); r != nil {
			o.Violate(Violation{Property: "C16", Clause: "panic", Sig: "C16|panic|closest-query", Detail: fmt.Sprint(r), Replay: c})
		}
	}()
	model, err := buildClosestModel(c)
	if err != nil {
		o.Count("closest-build-error")
		return
	}
	stops := model.Stops()
	// ranks of the squared distances
	d2 := make([][]float64, len(stops))
	var all []float64
	for i := range stops {
		d2[i] = make([]float64, len(stops))
		for j := range stops {
			d, err := common.Haversine(stops[i].Location(), stops[j].Location())
			if err != nil {
				o.Count("closest-haversine-error")
				return
			}
			km := d.Value(common.Kilometers)
			d2[i][j] = km * km
			all = append(all, d2[i][j])
		}
	}
	sort.Float64s(all)
	uniq := all[:0]
	for i, x := range all {
		if i == 0 || x != uniq[len(uniq)-1] {
			uniq = append(uniq, x)
		}
	}
	rank := func(x float64) int { return sort.SearchFloat64s(uniq, x) }
	render := func(ms nextroute.ModelStops) string {
		if len(ms) == 0 {
			return "-"
		}
		var p []string
		for _, s := range ms {
			p = append(p, fmt.Sprint(s.Index()))
		}
		return strings.Join(p, ",")
	}
	cutInTie := false
	for _, n := range c.Ns {
		for qi, q := range stops {
			if len(stops) > 12 && (qi*7+n)%3 != 0 {
				continue // a third of the stops per query size on larger layouts
			}
			var answers []string
			for rep := 0; rep < 3; rep++ {
				// a fresh object each time: a fresh tree with fresh pivots
				qs, err := nextroute.NewModelStopsDistanceQueries(stops)
				if err != nil {
					o.Count("closest-query-object-error")
					return
				}
				ms, err := qs.NearestStops(q, n)
				if err != nil {
					o.Violate(Violation{Property: "C16", Clause: "engine-error", Sig: "C16|engine-error|closest-query", Detail: err.Error(), Replay: c})
					return
				}
				answers = append(answers, render(ms))
			}
			if answers[1] != answers[0] || answers[2] != answers[0] {
				o.Violate(Violation{Property: "C12", Clause: "closest-stops-differ-between-builds", Sig: "C12|closest-stops-differ-between-builds|query|" + c.Layout,
					Detail: fmt.Sprintf("NearestStops(stop %d, %d) on three query objects built from the same stops: %s / %s / %s", q.Index(), n, answers[0], answers[1], answers[2]), Replay: c})
			}
			var cs []string
			for j := range stops {
				cs = append(cs, fmt.Sprintf("%d:%d", rank(d2[qi][j]), stops[j].Index()))
			}
			o.Op(fmt.Sprintf("closest %d %d %s", n, q.Index(), strings.Join(cs, ",")), "closest "+answers[0])
			o.Count("closest-queries")
			// does the cut fall between equally distant stops?
			var ds []float64
			for j := range stops {
				if j != qi {
					ds = append(ds, d2[qi][j])
				}
			}
			sort.Float64s(ds)
			if n >= 1 && n < len(ds) && ds[n-1] == ds[n] {
				o.Count("closest-queries-with-the-cut-inside-a-tie")
				cutInTie = true
			}
		}
	}
	// the lists the un-plan operators walk, on two models built from the same data
	m2, err := buildClosestModel(c)
	if err == nil {
		s2 := m2.Stops()
		for i, s := range stops {
			a, e1 := s.ClosestStops()
			b, e2 := s2[i].ClosestStops()
			if e1 != nil || e2 != nil {
				o.Count("closest-stops-error")
				continue
			}
			if render(a) != render(b) {
				o.Violate(Violation{Property: "C12", Clause: "closest-stops-differ-between-builds", Sig: "C12|closest-stops-differ-between-builds|model|" + c.Layout,
					Detail: fmt.Sprintf("ClosestStops of stop %d on two models built from the same data: %s / %s", i, render(a), render(b)), Replay: c})
				break
			}
		}
	}
	if cutInTie {
		o.Distinct(fmt.Sprintf("layouts-with-a-cut-inside-a-tie:%s:%d", c.Layout, len(stops)))
	}
	o.Count("closest-layout:" + c.Layout)
}
