package main

// Stream `fmt` (C20): the JSON output is a faithful projection of the solution. For generated cases
// (with and without vehicle start/end locations and start times, alternates, groups, custom data) the last
// solution of a short solve is formatted with factory.ToSolutionOutput, marshalled and parsed back, and
// compared field by field with the Solution object it was produced from and with the input.

import (
	"encoding/json"
	"fmt"
	"math"
	"math/rand"
	"reflect"
	"sort"
	"strings"
	"time"

	"github.com/nextmv-io/nextroute"
	"github.com/nextmv-io/nextroute/factory"
	"github.com/nextmv-io/nextroute/schema"
)

func init() { streams["fmt"] = runFmt }

func runFmt(o *Out, _ *rand.Rand, thorough bool) {
	o.Meta.Rule = "a case = generated instance solved briefly; the last solution is formatted and compared with the solution " +
		"and the input; non-trivial = an output with at least one planned stop and one of {unplanned stop, alternate, " +
		"group, custom data, waiting}; distinct by feature set"
	ncases := 150
	if thorough {
		ncases = 1500
	}
	seen := map[string]bool{}
	for ci := 0; ci < ncases; ci++ {
		rng := o.CaseRng(ci)
		c := genCase(rng, fullProfile(3+rng.Intn(9), 1+rng.Intn(3)))
		for i := range c.Stops {
			if rng.Intn(3) == 0 {
				c.Stops[i].Custom = map[string]any{"k": i, "tag": []any{"a", float64(i) + 0.5}}
			}
		}
		c.Solve = &CSolve{Runs: 1, Starts: 0, Det: true, Iters: 100 + rng.Intn(300)}
		if replayFile != "" {
			c = loadReplayCase(replayFile)
			ncases = 1
		}
		if !o.BeginCase(ci, c) {
			continue
		}
		o.Meta.Cases++
		bt, err, pan := buildCase(c)
		if pan != nil || err != nil {
			continue
		}
		sols, _, serr, span := solveAll(bt.model, nextroute.ParallelSolveOptions{Iterations: c.Solve.Iters, Duration: 20 * time.Second,
			ParallelRuns: 1, StartSolutions: 0, RunDeterministically: true})
		if span != nil || serr != nil || len(sols) == 0 {
			continue
		}
		sol := sols[len(sols)-1]
		back, ok := checkFormat(o, c, bt, sol, c, "", nil)
		if !ok {
			continue
		}
		planned := 0
		for _, v := range back.Vehicles {
			planned += len(v.Route)
		}
		if planned > 0 && !seen[c.featureKey()] {
			seen[c.featureKey()] = true
			o.Distinct("feature-sets")
		}
		ids := []string{}
		for _, u := range back.Unplanned {
			ids = append(ids, u.ID)
		}
		sort.Strings(ids)
		o.Sample(map[string]any{"features": c.Features, "unplanned": ids, "objective": back.Objective.Value})
		if replayFile != "" {
			break
		}
	}
}

// checkFormat formats a solution and compares the parsed output with the solution object and the input
// (C20). `replay` is what a violation stores; `where` tags the signature ("" for the fmt stream).
func checkFormat(o *Out, c *Case, bt *built, sol nextroute.Solution, replay any, where string, whereOf func(si int) string) (back schema.SolutionOutput, ok bool) {
	tainted := !booksConsistent(sol)
	var out schema.SolutionOutput
	func() {
		defer func() {
			if r := recover(); r != nil {
				o.Violate(Violation{Property: "C20", Clause: "format-panics", Sig: "C20|format-panics", Detail: fmt.Sprint(r), Replay: replay})
			}
		}()
		out = factory.ToSolutionOutput(sol)
	}()
	b, _ := json.Marshal(out)
	// (parsed back into the named result)
	if e := json.Unmarshal(b, &back); e != nil {
		o.Violate(Violation{Property: "C20", Clause: "output-not-parseable", Sig: "C20|output-not-parseable", Detail: e.Error(), Replay: replay})
		return back, false
	}
	viol := func(clause, detail string) {
		sigx := ""
		if tainted {
			sigx = "|books-inconsistent"
		}
		if where != "" {
			sigx += "|" + where
		}
		o.Violate(Violation{Property: "C20", Clause: clause, Sig: "C20|" + clause + sigx, Detail: detail, Replay: replay})
	}
	// (1) every input stop exactly once; alternates at most once per vehicle
	count := map[string]int{}
	for _, u := range back.Unplanned {
		count[u.ID]++
	}
	altIDs := map[string]bool{}
	for _, a := range c.Alts {
		altIDs[a.ID] = true
	}
	for vi, v := range back.Vehicles {
		perVeh := map[string]int{}
		for _, st := range v.Route {
			id := st.Stop.ID
			if strings.HasSuffix(id, "-start") || strings.HasSuffix(id, "-end") {
				continue
			}
			if altIDs[id] {
				perVeh[id]++
				if perVeh[id] > 1 {
					viol("alternate-twice-on-vehicle", fmt.Sprintf("vehicle %d alternate %s", vi, id))
				}
				continue
			}
			count[id]++
		}
	}
	for si, s := range c.Stops {
		if count[s.ID] != 1 {
			// the signature names how often and in which kind of (root) unit: the known half-planned states
			// of one-of units (E2) and torn groups (E16) are distinguishable from anything else
			kind := "?"
			if bt != nil && bt.d != nil && si < len(bt.d.stopUnit) {
				u := bt.d.stopUnit[si]
				for bt.d.parent[u] >= 0 {
					u = bt.d.parent[u]
				}
				kind = bt.d.units[u].Kind
				if bt.d.units[u].Loose {
					kind = "allloose"
				}
			}
			if whereOf != nil {
				kind += "|" + whereOf(si)
			}
			viol(fmt.Sprintf("stop-not-exactly-once|%d-times|%s", count[s.ID], kind), fmt.Sprintf("stop %s occurs %d times in routes ∪ unplanned", s.ID, count[s.ID]))
			break
		}
	}
	// (2) custom data unchanged
	wantCustom := map[string]any{}
	for _, s := range c.Stops {
		wantCustom[s.ID] = s.Custom
	}
	for _, a := range c.Alts {
		wantCustom[a.ID] = a.Custom
	}
	sameJSON := func(a, b any) bool {
		x, _ := json.Marshal(a)
		y, _ := json.Marshal(b)
		var ax, ay any
		json.Unmarshal(x, &ax)
		json.Unmarshal(y, &ay)
		return reflect.DeepEqual(ax, ay)
	}
	checkStopCustom := func(s schema.StopOutput) {
		if w, ok := wantCustom[s.ID]; ok && !sameJSON(w, s.CustomData) {
			kind := "stop"
			if altIDs[s.ID] {
				kind = "alternate"
			}
			viol("custom-data-changed|"+kind, fmt.Sprintf("stop %s custom data %v, input %v", s.ID, s.CustomData, w))
		}
	}
	for _, u := range back.Unplanned {
		checkStopCustom(u)
	}
	vehicles := sol.Vehicles()
	for vi, v := range back.Vehicles {
		if vi >= len(c.Vehicles) || vi >= len(vehicles) {
			viol("vehicle-count", "more vehicles in the output than in the input")
			break
		}
		if !sameJSON(c.Vehicles[vi].Custom, v.CustomData) {
			viol("custom-data-changed|vehicle", fmt.Sprintf("vehicle %s custom data %v, input %v", v.ID, v.CustomData, c.Vehicles[vi].Custom))
		}
		if v.ID != c.Vehicles[vi].ID {
			viol("vehicle-id", v.ID)
		}
		// (3) per-stop values = the solution's own values truncated to whole seconds
		var stops []nextroute.SolutionStop
		for _, st := range vehicles[vi].SolutionStops() {
			if st.ModelStop().Location().IsValid() {
				stops = append(stops, st)
			}
		}
		if len(stops) != len(v.Route) {
			viol("route-length", fmt.Sprintf("vehicle %s: %d stops in the output, %d located stops in the solution", v.ID, len(v.Route), len(stops)))
			continue
		}
		cumDist, sumDur := 0, 0
		for i, ps := range v.Route {
			st := stops[i]
			checkStopCustom(ps.Stop)
			tr := func(f float64) int { return int(f) }
			if ps.TravelDuration != tr(st.TravelDurationValue()) {
				viol("travel-duration", fmt.Sprintf("%s: %d vs %v", ps.Stop.ID, ps.TravelDuration, st.TravelDurationValue()))
			}
			if ps.CumulativeTravelDuration != tr(st.CumulativeTravelDurationValue()) {
				viol("cumulative-travel-duration", fmt.Sprintf("%s: %d vs %v", ps.Stop.ID, ps.CumulativeTravelDuration, st.CumulativeTravelDurationValue()))
			}
			// durations are differences of instants: exact for whole-second values
			if isWhole(st.StartValue()) && isWhole(st.EndValue()) && ps.Duration != tr(st.EndValue()-st.StartValue()) {
				viol("duration", fmt.Sprintf("%s: %d vs %v", ps.Stop.ID, ps.Duration, st.EndValue()-st.StartValue()))
			}
			if isWhole(st.StartValue()) && isWhole(st.ArrivalValue()) && ps.WaitingDuration != tr(st.StartValue()-st.ArrivalValue()) {
				viol("waiting-duration", fmt.Sprintf("%s: %d vs %v", ps.Stop.ID, ps.WaitingDuration, st.StartValue()-st.ArrivalValue()))
			}
			if ps.ArrivalTime != nil {
				if ps.ArrivalTime.Unix() != int64(math.Floor(st.ArrivalValue())) || ps.StartTime.Unix() != int64(math.Floor(st.StartValue())) ||
					ps.EndTime.Unix() != int64(math.Floor(st.EndValue())) {
					viol("times", fmt.Sprintf("%s: arrival/start/end %v/%v/%v vs %v/%v/%v", ps.Stop.ID, ps.ArrivalTime.Unix(), ps.StartTime.Unix(),
						ps.EndTime.Unix(), st.ArrivalValue(), st.StartValue(), st.EndValue()))
				}
			}
			cumDist += ps.TravelDistance
			sumDur += ps.Duration
			if ps.CumulativeTravelDistance != cumDist {
				viol("cumulative-distance", fmt.Sprintf("%s: %d vs prefix sum %d", ps.Stop.ID, ps.CumulativeTravelDistance, cumDist))
			}
			// distance of the leg from the input matrix
			if i > 0 {
				if want, ok := legDistance(c, bt.d, stops[i-1], st, vi); ok && ps.TravelDistance != want {
					viol("travel-distance", fmt.Sprintf("%s: %d vs matrix %d", ps.Stop.ID, ps.TravelDistance, want))
				}
			}
		}
		if v.RouteTravelDuration != int(vehicles[vi].Last().CumulativeTravelDurationValue()) {
			viol("route-travel-duration", fmt.Sprintf("%s: %d vs %v", v.ID, v.RouteTravelDuration, vehicles[vi].Last().CumulativeTravelDurationValue()))
		}
		if isWhole(vehicles[vi].DurationValue()) && v.RouteDuration != int(vehicles[vi].DurationValue()) {
			viol("route-duration", fmt.Sprintf("%s: %d vs %v", v.ID, v.RouteDuration, vehicles[vi].DurationValue()))
		}
		if v.RouteTravelDistance != cumDist || v.RouteStopsDuration != sumDur {
			viol("route-sums", fmt.Sprintf("%s: distance %d vs %d, stops duration %d vs %d", v.ID, v.RouteTravelDistance, cumDist, v.RouteStopsDuration, sumDur))
		}
		// waiting of the route = sum of the stops' waiting, for whole-second schedules whose stops are all located
		if len(stops) == len(vehicles[vi].SolutionStops()) {
			w, whole := 0, true
			for _, ps := range v.Route {
				w += ps.WaitingDuration
			}
			for _, st := range stops {
				whole = whole && isWhole(st.ArrivalValue()) && isWhole(st.StartValue()) && isWhole(st.EndValue()) && isWhole(st.TravelDurationValue())
			}
			if whole && v.RouteWaitingDuration != w {
				viol("route-waiting-duration", fmt.Sprintf("%s: %d vs sum of waiting %d", v.ID, v.RouteWaitingDuration, w))
			}
			// the same legs through the Lean projection model (NR.Format.routeWaiting)
			if whole && len(stops) > 0 {
				line := fmt.Sprintf("fmt route %d", int64(stops[0].ArrivalValue())-int64(stops[0].TravelDurationValue()))
				for _, st := range stops {
					line += fmt.Sprintf(" %d:%d:%d:%d", int64(st.TravelDurationValue()), int64(st.ArrivalValue()), int64(st.StartValue()), int64(st.EndValue()))
				}
				o.Op(line, fmt.Sprintf("fmt route %d", v.RouteWaitingDuration))
			}
		}
	}
	// (4) objective block
	sum := 0.0
	for _, t := range back.Objective.Objectives {
		sum += t.Value
		if t.Factor != 0 && math.Abs(t.Base*t.Factor-t.Value) > 1e-6*(1+math.Abs(t.Value)) {
			viol("objective-base-times-factor", fmt.Sprintf("%s: base %v × factor %v ≠ value %v", t.Name, t.Base, t.Factor, t.Value))
		}
	}
	if math.Abs(sum-back.Objective.Value) > 1e-6*(1+math.Abs(sum)) {
		viol("objective-total-not-sum", fmt.Sprintf("total %v, sum of terms %v", back.Objective.Value, sum))
	}
	if math.Abs(back.Objective.Value-sol.Score()) > 1e-9*(1+math.Abs(sol.Score())) {
		viol("objective-total-not-score", fmt.Sprintf("total %v, solution score %v", back.Objective.Value, sol.Score()))
	}
	return back, true
}

func isWhole(f float64) bool { return f == math.Floor(f) }

// legDistance: distance of a leg from the input's matrix (both ends located).
func legDistance(c *Case, d *Derived, from, to nextroute.SolutionStop, vi int) (int, bool) {
	idx := func(s nextroute.SolutionStop) (int, bool) {
		mi := s.ModelStop().Index()
		n := d.nStops
		switch {
		case mi < n:
			return mi, true
		case mi < n+len(d.altCopy):
			return n + d.altCopy[mi-n][1], true
		case s.IsFirst():
			return n + len(c.Alts) + 2*vi, true
		case s.IsLast():
			return n + len(c.Alts) + 2*vi + 1, true
		}
		return 0, false
	}
	a, ok1 := idx(from)
	b, ok2 := idx(to)
	if !ok1 || !ok2 || a >= len(c.Dist) || b >= len(c.Dist) {
		return 0, false
	}
	return c.Dist[a][b], true
}
