package main

// Stream `td` (C17): time-dependent travel. Builds frame layouts through the public API
// (constant and scaled expressions) and through the JSON front end (scaling factors and
// per-frame matrices), queries ValueAtValue on dense grids and at every frame boundary,
// writes the operations for the Lean model and evaluates the property's four clauses on
// the code's own values.

import (
	"fmt"
	"math"
	"math/rand"
	"sort"
	"time"

	"github.com/nextmv-io/nextroute"
	"github.com/nextmv-io/nextroute/factory"
	"github.com/nextmv-io/nextroute/schema"
)

func init() { streams["td"] = runTd }

type tdFrame struct {
	S, E int64 // seconds since epoch
	X    int   // expression index (1..)
}

type tdCase struct {
	Kind   string    `json:"kind"` // api | json-scale | json-matrix
	Durs   []float64 `json:"durs"` // durs[0] default
	Frames []tdFrame `json:"frames"`
	Layout string    `json:"layout"`
}

const tdBase = int64(1672531200) // 2023-01-01T00:00:00Z, minute aligned

func genTdCase(rng *rand.Rand, malformed bool) tdCase {
	c := tdCase{}
	switch rng.Intn(4) {
	case 0:
		c.Kind = "json-scale"
	case 1:
		c.Kind = "json-matrix"
	default:
		c.Kind = "api"
	}
	nx := 1 + rng.Intn(4)
	def := float64(rng.Intn(4000))
	if rng.Intn(8) == 0 {
		def = 0
	}
	c.Durs = []float64{def}
	scales := []float64{0.5, 0.25, 1.5, 2, 3, 1.25, 4, 0.75}
	for i := 0; i < nx; i++ {
		switch c.Kind {
		case "json-scale":
			c.Durs = append(c.Durs, def*scales[rng.Intn(len(scales))])
		default:
			d := float64(rng.Intn(6000))
			if rng.Intn(10) == 0 {
				d = 0
			}
			c.Durs = append(c.Durs, d)
		}
	}
	// layout: sequence of frames with gaps, inserted in shuffled order
	n := 1 + rng.Intn(6)
	t := tdBase + int64(rng.Intn(600))*60
	atEpoch := rng.Intn(8) == 0
	if atEpoch {
		// the first frame starts exactly at the epoch (value 0 — also "unset" in more than one place of the code)
		t = 0
	}
	adj, gap := 0, 0
	for i := 0; i < n; i++ {
		g := int64(0)
		if rng.Intn(3) != 0 && !(atEpoch && i == 0) {
			g = int64(1+rng.Intn(90)) * 60
			gap++
		} else if i > 0 {
			adj++
		}
		l := int64(1+rng.Intn(120)) * 60
		if rng.Intn(6) == 0 {
			l = int64(1+rng.Intn(3)) * 60
		}
		s := t + g
		c.Frames = append(c.Frames, tdFrame{S: s, E: s + l, X: 1 + rng.Intn(nx)})
		t = s + l
	}
	c.Layout = fmt.Sprintf("frames=%d adjacent=%d gapped=%d", n, adj, gap)
	if atEpoch {
		c.Layout += " first-at-epoch"
	}
	rng.Shuffle(len(c.Frames), func(i, j int) { c.Frames[i], c.Frames[j] = c.Frames[j], c.Frames[i] })
	if malformed {
		k := rng.Intn(len(c.Frames) + 1)
		var f tdFrame
		switch rng.Intn(5) {
		case 0: // starts in a gap (or before everything) and reaches into later frames
			f = tdFrame{S: tdBase + int64(rng.Intn(700))*60, X: 1 + rng.Intn(nx)}
			f.E = f.S + int64(30+rng.Intn(400))*60
			c.Layout += " +overlap-any"
		case 1: // not on a minute boundary
			f = tdFrame{S: t + 600 + int64(rng.Intn(59)+1), E: t + 1800, X: 1}
			c.Layout += " +unaligned"
		case 2: // end before start
			f = tdFrame{S: t + 1200, E: t + 600, X: 1}
			c.Layout += " +reversed"
		case 3: // more than a week
			f = tdFrame{S: t + 600, E: t + 8*24*3600, X: 1}
			c.Layout += " +week"
		default: // duplicate of an existing frame
			f = c.Frames[rng.Intn(len(c.Frames))]
			c.Layout += " +duplicate"
		}
		c.Frames = append(c.Frames[:k], append([]tdFrame{f}, c.Frames[k:]...)...)
	}
	return c
}

// tdExpr is the real expression plus what is needed to query it.
type tdExpr struct {
	e        nextroute.TimeDependentDurationExpression
	vt       nextroute.ModelVehicleType
	from, to nextroute.ModelStop
	accepted []bool // per frame: SetExpression accepted
	results  []string
	buildErr string
}

func classifyTdErr(err error) string {
	if err == nil {
		return "ok"
	}
	s := err.Error()
	switch {
	case contains(s, "overlaps"):
		return "overlap"
	default:
		return "badarg"
	}
}

func contains(s, sub string) bool {
	return len(sub) <= len(s) && (func() bool {
		for i := 0; i+len(sub) <= len(s); i++ {
			if s[i:i+len(sub)] == sub {
				return true
			}
		}
		return false
	})()
}

func buildTdAPI(c tdCase) (x tdExpr, err error) {
	defer func() {
		if r := recover(); r != nil {
			err = fmt.Errorf("panic: %v", r)
		}
	}()
	model, e := nextroute.NewModel()
	if e != nil {
		return x, e
	}
	mk := func(i int) nextroute.DurationExpression {
		return nextroute.NewConstantDurationExpression(fmt.Sprintf("c%d", i),
			time.Duration(c.Durs[i]*float64(time.Second)))
	}
	def := mk(0)
	td, e := nextroute.NewTimeDependentDurationExpression(model, def)
	if e != nil {
		return x, e
	}
	exprs := map[int]nextroute.DurationExpression{}
	for _, f := range c.Frames {
		ex, ok := exprs[f.X]
		if !ok {
			ex = mk(f.X)
			exprs[f.X] = ex
		}
		r := classifyTdErr(td.SetExpression(time.Unix(f.S, 0).UTC(), time.Unix(f.E, 0).UTC(), ex))
		x.results = append(x.results, r)
		x.accepted = append(x.accepted, r == "ok")
	}
	x.e = td
	return x, nil
}

func sq(n int, f func(i, j int) float64) [][]float64 {
	m := make([][]float64, n)
	for i := range m {
		m[i] = make([]float64, n)
		for j := range m[i] {
			if i != j {
				m[i][j] = f(i, j)
			}
		}
	}
	return m
}

// buildTdJSON goes through factory.NewModel: two stops, one vehicle, measure indices 0,1
// are the stops; the (0,1) entry of each matrix carries the case's duration.
func buildTdJSON(c tdCase) (x tdExpr, err error) {
	defer func() {
		if r := recover(); r != nil {
			err = fmt.Errorf("panic: %v", r)
		}
	}()
	mat := func(d float64) [][]float64 {
		return sq(4, func(i, j int) float64 {
			if i == 0 && j == 1 {
				return d
			}
			return 7
		})
	}
	tdm := schema.TimeDependentMatrix{DefaultMatrix: mat(c.Durs[0])}
	for _, f := range c.Frames {
		tf := schema.MatrixTimeFrame{StartTime: time.Unix(f.S, 0).UTC(), EndTime: time.Unix(f.E, 0).UTC()}
		if c.Kind == "json-scale" {
			s := 1.0
			if c.Durs[0] != 0 {
				s = c.Durs[f.X] / c.Durs[0]
			}
			tf.ScalingFactor = &s
		} else {
			tf.Matrix = mat(c.Durs[f.X])
		}
		tdm.MatrixTimeFrames = append(tdm.MatrixTimeFrames, tf)
	}
	speed := 10.0
	st := time.Unix(tdBase, 0).UTC()
	in := schema.Input{
		DurationMatrix: tdm,
		Stops: []schema.Stop{
			{ID: "a", Location: schema.Location{Lon: 1, Lat: 1}},
			{ID: "b", Location: schema.Location{Lon: 1.1, Lat: 1}},
		},
		Vehicles: []schema.Vehicle{{ID: "v", Speed: &speed, StartTime: &st,
			StartLocation: &schema.Location{Lon: 1, Lat: 1.1}, EndLocation: &schema.Location{Lon: 1, Lat: 1.1}}},
	}
	var opt factory.Options
	opt.Objectives.VehiclesDuration = 1
	opt.Objectives.UnplannedPenalty = 1
	model, e := factory.NewModel(in, opt)
	if e != nil {
		x.buildErr = classifyTdErr(e)
		if !contains(e.Error(), "overlaps") && !contains(e.Error(), "minute boundary") &&
			!contains(e.Error(), "too large") && !contains(e.Error(), "after") {
			return x, e
		}
		return x, nil
	}
	vt := model.VehicleTypes()[0]
	x.e = vt.TravelDurationExpression()
	x.vt = vt
	stops := model.Stops()
	x.from, x.to = stops[0], stops[1]
	for range c.Frames {
		x.accepted = append(x.accepted, true)
		x.results = append(x.results, "ok")
	}
	return x, nil
}

func tdQueryTimes(rng *rand.Rand, c tdCase, thorough bool) []float64 {
	var qs []float64
	lo, hi := float64(c.Frames[0].S), float64(c.Frames[0].E)
	maxd := 0.0
	for _, d := range c.Durs {
		if d > maxd {
			maxd = d
		}
	}
	for _, f := range c.Frames {
		lo = math.Min(lo, float64(f.S))
		hi = math.Max(hi, float64(f.E))
		for _, b := range []float64{float64(f.S), float64(f.E)} {
			for _, d := range []float64{-60, -1, -0.5, -0.001, 0, 0.001, 0.5, 1, 59.999, 60} {
				qs = append(qs, b+d)
			}
			// departures from which a trip just reaches / just misses the boundary
			for _, du := range c.Durs {
				qs = append(qs, b-du, b-du-0.25, b-du+0.25, b-du/2)
			}
		}
	}
	lo -= 2*maxd + 120
	hi += 300
	n := 150
	if thorough {
		n = 1500
	}
	for i := 0; i < n; i++ {
		switch rng.Intn(3) {
		case 0:
			qs = append(qs, math.Floor(lo+rng.Float64()*(hi-lo)))
		case 1:
			qs = append(qs, math.Floor((lo+rng.Float64()*(hi-lo))*8)/8)
		default:
			qs = append(qs, lo+rng.Float64()*(hi-lo))
		}
	}
	sort.Float64s(qs)
	out := qs[:0]
	for i, q := range qs {
		if q < 0 || (i > 0 && q == qs[i-1]) {
			continue
		}
		out = append(out, q)
	}
	return out
}

func (x *tdExpr) value(v float64) (r float64, panicked bool) {
	defer func() {
		if rec := recover(); rec != nil {
			panicked = true
		}
	}()
	return x.e.ValueAtValue(v, x.vt, x.from, x.to), false
}

func runTd(o *Out, rng *rand.Rand, thorough bool) {
	o.Meta.Rule = "a case = (expression durations, frame layout in insertion order, API or JSON route); " +
		"non-trivial = a query whose trip spans at least two elements (value differs from the duration " +
		"of the element it starts in); distinct by (layout shape, kind)"
	ncases := 120
	if thorough {
		ncases = 1500
	}
	shapes := map[string]bool{}
	for ci := 0; ci < ncases; ci++ {
		rng := o.CaseRng(ci)
		malformed := ci%5 == 4
		c := genTdCase(rng, malformed)
		var x tdExpr
		var err error
		if c.Kind == "api" {
			x, err = buildTdAPI(c)
		} else {
			x, err = buildTdJSON(c)
		}
		if !o.BeginCase(ci, c) {
			continue
		}
		o.Meta.Cases++
		o.Count("kind:" + c.Kind)
		if malformed {
			o.Count("malformed")
		}
		if err != nil {
			o.Violate(Violation{Property: "C17", Clause: "build-crash", Sig: "C17|build-crash|" + c.Kind,
				Detail: err.Error(), Replay: c})
			continue
		}
		// operations for the model
		durs := "td new"
		for _, d := range c.Durs {
			durs += " " + rat(d)
		}
		o.Op(durs, fmt.Sprintf("td new %d", len(c.Durs)))
		nacc := 0
		if c.Kind != "api" {
			// the JSON route builds all frames or fails as a whole: the model gets the frame list
			// and only the verdict is compared
			for _, f := range c.Frames {
				o.Op(fmt.Sprintf("td trybuild %d %d %d", f.S, f.E, f.X), "td trybuild")
			}
			verdict := x.buildErr
			if verdict == "" {
				verdict = "ok"
				nacc = len(c.Frames)
			}
			o.Op("td buildverdict", "td buildverdict "+verdict)
			o.Count("json-build:" + verdict)
		} else {
			for i, f := range c.Frames {
				o.Op(fmt.Sprintf("td set %d %d %d", f.S, f.E, f.X), "td set "+x.results[i])
				o.Count("set:" + x.results[i])
				if x.accepted[i] {
					nacc++
				}
			}
		}
		if nacc == 0 {
			continue
		}
		// which accepted frames are pairwise disjoint (the layouts the property enumerates)
		var acc []tdFrame
		for i, f := range c.Frames {
			if x.accepted[i] {
				acc = append(acc, f)
			}
		}
		sorted := append([]tdFrame(nil), acc...)
		sort.Slice(sorted, func(i, j int) bool { return sorted[i].S < sorted[j].S })
		disjoint := true
		for i := 1; i < len(sorted); i++ {
			if sorted[i].S < sorted[i-1].E {
				disjoint = false
			}
		}
		if !disjoint {
			o.Count("accepted-overlapping-layout")
		}
		qs := tdQueryTimes(rng, tdCase{Durs: c.Durs, Frames: acc}, thorough)
		prevT, prevArr := -1.0, -1.0
		spans := 0
		for _, q := range qs {
			val, panicked := x.value(q)
			if panicked {
				o.Op("td q "+rat(q), "td q none")
				o.Violate(Violation{Property: "C17", Clause: "value-panics", Sig: sigTd("value-panics", disjoint),
					Detail: fmt.Sprintf("ValueAtValue(%v) panics", q), Replay: map[string]any{"case": c, "q": q}})
				continue
			}
			o.Op("td q "+rat(q), "td q "+rat(val))
			tol := 1e-6 * (1 + math.Abs(val))
			// clause 1: non-negative
			if val < -tol {
				o.Violate(Violation{Property: "C17", Clause: "negative", Sig: sigTd("negative", disjoint),
					Detail: fmt.Sprintf("ValueAtValue(%v) = %v", q, val), Replay: map[string]any{"case": c, "q": q}})
			}
			// clause 2: FIFO
			if prevT >= 0 && q+val < prevArr-1e-6*(1+math.Abs(prevArr)/1e6) {
				o.Violate(Violation{Property: "C17", Clause: "fifo", Sig: sigTd("fifo", disjoint),
					Detail: fmt.Sprintf("leave %v arrive %v, leave %v arrive %v", prevT, prevArr, q, q+val),
					Replay: map[string]any{"case": c, "q1": prevT, "q2": q}})
			}
			prevT, prevArr = q, q+val
			// clause 3/4: inside one element (frame or default) for the whole trip
			if disjoint {
				d, end := tdElementAt(c.Durs, sorted, q)
				if q+d <= end {
					if math.Abs(val-d) > 1e-9*(1+d) {
						o.Violate(Violation{Property: "C17", Clause: "frame-consistency", Sig: sigTd("frame-consistency", disjoint),
							Detail:  fmt.Sprintf("at %v trip of %v fits before %v but value is %v", q, d, end, val),
							Replay: map[string]any{"case": c, "q": q}})
					}
				} else {
					spans++
				}
			}
		}
		o.CountN("queries", len(qs))
		o.CountN("queries-spanning-elements", spans)
		if spans > 0 {
			key := c.Kind + "|" + c.Layout
			if !shapes[key] {
				shapes[key] = true
				o.Distinct("layouts-with-spanning-trips")
			}
		}
		o.Sample(c)
	}
}

func sigTd(clause string, disjoint bool) string {
	if disjoint {
		return "C17|" + clause + "|disjoint-frames"
	}
	return "C17|" + clause + "|overlapping-frames-accepted"
}

// tdElementAt: for a disjoint sorted layout, the duration in force at q and the end of that element.
func tdElementAt(durs []float64, sorted []tdFrame, q float64) (float64, float64) {
	for i, f := range sorted {
		if q < float64(f.S) {
			return durs[0], float64(f.S)
		}
		if q < float64(f.E) {
			return durs[f.X], float64(f.E)
		}
		_ = i
	}
	return durs[0], math.Inf(1)
}
