package main

// Case → `inst …` lines for NR.Spec.Inst, derived from the Case alone (never from nextroute
// objects), and the mapping between nextroute's solution objects and the Case's indices.

import (
	"fmt"
	"sort"
	"strconv"
	"strings"

	"github.com/nextmv-io/nextroute"
)

// Derived holds index conventions shared by inst lines and observations.
type Derived struct {
	c        *Case
	nStops   int     // input stops
	altCopy  [][2]int // per alternate copy: (vehicle, alt index); model stop index = nStops + k
	resNames []string
	units    []DUnit
	parent   []int // -1 = root
	stopUnit []int // per model stop (incl. alt copies): its stops-unit
}

type DUnit struct {
	Kind    string // stops | oneof | all
	Stops   []int
	Arcs    [][3]int // a, b, direct
	Members []int
	Loose   bool // plan-all without the same-vehicle requirement
}

func derive(c *Case) *Derived {
	d := &Derived{c: c, nStops: len(c.Stops)}
	for v, ve := range c.Vehicles {
		for _, a := range ve.Alternates {
			d.altCopy = append(d.altCopy, [2]int{v, a})
		}
	}
	names := map[string]bool{}
	for _, s := range c.Stops {
		for k := range s.Qty {
			names[k] = true
		}
	}
	for _, s := range c.Alts {
		for k := range s.Qty {
			names[k] = true
		}
	}
	for _, v := range c.Vehicles {
		for k := range v.Cap {
			names[k] = true
		}
		if v.Cap != nil {
			for k := range v.StartLevel {
				names[k] = true
			}
		}
	}
	for k := range names {
		d.resNames = append(d.resNames, k)
	}
	sort.Strings(d.resNames)
	// units of input stops
	total := d.nStops + len(d.altCopy)
	d.stopUnit = make([]int, total)
	for _, u := range c.unitsOfStops() {
		du := DUnit{Kind: "stops", Stops: u}
		for _, s := range u {
			for _, p := range c.Stops[s].Precedes {
				dir := 0
				if p.Direct {
					dir = 1
				}
				du.Arcs = append(du.Arcs, [3]int{s, p.To, dir})
			}
			d.stopUnit[s] = len(d.units)
		}
		d.units = append(d.units, du)
	}
	// alternates: one single-stop unit per copy, one one-of unit per vehicle
	k := 0
	for _, ve := range c.Vehicles {
		if ve.Alternates == nil {
			continue
		}
		var members []int
		for range ve.Alternates {
			d.stopUnit[d.nStops+k] = len(d.units)
			members = append(members, len(d.units))
			d.units = append(d.units, DUnit{Kind: "stops", Stops: []int{d.nStops + k}})
			k++
		}
		d.units = append(d.units, DUnit{Kind: "oneof", Members: members})
	}
	// stop groups: plan-all over the distinct units of the group's stops (when more than one)
	if !c.disabled("groups") {
		for _, g := range c.Groups {
			seen := map[int]bool{}
			var members []int
			for _, s := range g {
				u := d.stopUnit[s]
				if !seen[u] {
					seen[u] = true
					members = append(members, u)
				}
			}
			if len(members) > 1 {
				d.units = append(d.units, DUnit{Kind: "all", Members: members})
			}
		}
	}
	// loose groups (added through the model API by buildCase): plan-all, any vehicles
	for _, g := range c.Loose {
		seen := map[int]bool{}
		var members []int
		for _, s := range g {
			u := d.stopUnit[s]
			if !seen[u] {
				seen[u] = true
				members = append(members, u)
			}
		}
		if len(members) > 1 {
			d.units = append(d.units, DUnit{Kind: "all", Members: members, Loose: true})
		}
	}
	d.parent = make([]int, len(d.units))
	for i := range d.parent {
		d.parent[i] = -1
	}
	for i, u := range d.units {
		for _, m := range u.Members {
			d.parent[m] = i
		}
	}
	return d
}

func (d *Derived) stopOf(idx int) (CStop, bool) {
	if idx < d.nStops {
		return d.c.Stops[idx], false
	}
	return d.c.Alts[d.altCopy[idx-d.nStops][1]], true
}

func optI(p *int) string {
	if p == nil {
		return "-"
	}
	return strconv.Itoa(*p)
}

func csvI(xs []int) string {
	if len(xs) == 0 {
		return "-"
	}
	ss := make([]string, len(xs))
	for i, x := range xs {
		ss[i] = strconv.Itoa(x)
	}
	return strings.Join(ss, ",")
}

func csvS(xs []string) string {
	if len(xs) == 0 {
		return "-"
	}
	return strings.Join(xs, ",")
}

func b01(b bool) string {
	if b {
		return "1"
	}
	return "0"
}

// writeInst emits the instance. All answers are the fixed acknowledgement the driver prints.
func (d *Derived) writeInst(o *Out) {
	c := d.c
	emit := func(format string, a ...any) {
		line := fmt.Sprintf(format, a...)
		o.Op(line, "inst")
	}
	ntravel := 1
	emit("inst begin %d %d %d %d %d", d.nStops+len(d.altCopy), len(c.Vehicles), len(d.resNames), ntravel, c.measureSize())
	act := func(name string) string { return b01(!c.disabled(name)) }
	emit("inst opt %s %s %s %s %s %s %s %s %s", act("capacity"), act("distance_limit"), act("maximum_stops"),
		act("attributes"), act("start_time_windows"), "1", act("maximum_wait_stop"), act("maximum_wait_vehicle"),
		act("mixing_items"))
	f := func(k string) int { return c.Opt.Factors[k] }
	emit("inst fac %d %d %d %d %d %d %d %d", f("vehicles_duration"), f("travel_duration"), f("unplanned_penalty"),
		f("vehicle_activation_penalty"), f("min_stops"), f("early_arrival_penalty"), f("late_arrival_penalty"), f("stop_balance"))
	// duration groups
	dgOf := map[int]int{}
	var gdur []int
	for gi, g := range c.DurGroups {
		if g.Dur == 0 {
			continue
		}
		for _, s := range g.Stops {
			dgOf[s] = len(gdur)
		}
		_ = gi
		gdur = append(gdur, g.Dur)
	}
	emit("inst gdur %s", csvI(gdur))
	// fixed / initial
	fixed := map[int]bool{}
	initial := map[int]int{}
	if !c.Opt.DisableIS {
		for v, ve := range c.Vehicles {
			for _, ini := range ve.Initial {
				idx := ini.Stop
				if idx < 0 {
					idx = d.altModelIndex(v, -ini.Stop-1)
				}
				initial[idx] = v
				if ini.Fixed {
					fixed[idx] = true
				}
			}
		}
	}
	total := d.nStops + len(d.altCopy)
	// an earliness (lateness) term exists when some stop or listed alternate has a target and a non-zero
	// early (late) penalty, and the factor is positive
	earlyTerm, lateTerm := false, false
	for i := 0; i < total; i++ {
		s, _ := d.stopOf(i)
		if s.Target != nil && s.Early != nil && *s.Early != 0 && c.Opt.Factors["early_arrival_penalty"] > 0 {
			earlyTerm = true
		}
		if s.Target != nil && s.Late != nil && *s.Late != 0 && c.Opt.Factors["late_arrival_penalty"] > 0 {
			lateTerm = true
		}
	}
	for i := 0; i < total; i++ {
		s, isAlt := d.stopOf(i)
		mIdx := i
		altOf := "-"
		if isAlt {
			mIdx = d.nStops + d.altCopy[i-d.nStops][1]
			altOf = strconv.Itoa(d.altCopy[i-d.nStops][0])
		}
		dg := "-"
		if g, ok := dgOf[i]; ok && !isAlt {
			dg = strconv.Itoa(g)
		}
		win := "-"
		// with the windows constraint disabled the factory sets no windows at all (no waiting either)
		if len(s.Windows) > 0 && !c.disabled("start_time_windows") {
			var ws []string
			for _, w := range s.Windows {
				ws = append(ws, fmt.Sprintf("%d:%d", w[0], w[1]))
			}
			win = strings.Join(ws, ";")
		}
		delta := make([]int, len(d.resNames))
		for ri, r := range d.resNames {
			delta[ri] = -s.Qty[r]
		}
		mix := "-"
		if len(s.Mix) > 0 {
			var ms []string
			keys := make([]string, 0, len(s.Mix))
			for k := range s.Mix {
				keys = append(keys, k)
			}
			sort.Strings(keys)
			for _, k := range keys {
				ms = append(ms, fmt.Sprintf("%s:%s:%d", k, s.Mix[k].Name, s.Mix[k].Qty))
			}
			mix = strings.Join(ms, ";")
		}
		// target / early / late as the factory wires them: one target-time expression shared by the
		// earliness and the lateness objective; earliness factor defaults to 0, lateness factor to 1
		target := "-"
		early, late := 0, 0
		setByEarly := earlyTerm && s.Target != nil && s.Early != nil && *s.Early != 0
		setByLate := lateTerm && s.Target != nil && s.Late != nil && *s.Late != 0
		if setByEarly || setByLate {
			target = strconv.FormatInt(*s.Target, 10)
			if setByEarly {
				early = *s.Early
			}
			if lateTerm {
				late = 1
				if setByLate {
					late = *s.Late
				}
			}
		}
		pen := 1000000
		if isAlt {
			pen = 2000000
		}
		if s.Penalty != nil {
			pen = *s.Penalty
		}
		ini := "-"
		if v, ok := initial[i]; ok {
			ini = strconv.Itoa(v)
		}
		attrs := s.Attrs
		if isAlt {
			attrs = nil
		}
		emit("inst stop %d %d %d %s %s %s %s %s %s %s %s %d %d %d %s %s", i, mIdx, s.Duration, dg, win, optI(s.MaxWait),
			csvI(delta), csvS(attrs), altOf, mix, target, early, late, pen, b01(fixed[i]), ini)
	}
	for v, ve := range c.Vehicles {
		start := int64(0)
		if ve.Start != nil && !c.disabled("vehicle_start_time") {
			start = *ve.Start
		}
		base := d.nStops + len(c.Alts) + 2*v
		firstM, lastM := "-", "-"
		if ve.StartLoc {
			firstM = strconv.Itoa(base)
		}
		if ve.EndLoc {
			lastM = strconv.Itoa(base + 1)
		}
		caps := make([]int, len(d.resNames))
		sl := make([]int, len(d.resNames))
		for ri, r := range d.resNames {
			caps[ri] = ve.Cap[r]
			if ve.Cap != nil {
				sl[ri] = ve.StartLevel[r]
			}
		}
		latestEnd := "-"
		if ve.End != nil && !c.disabled("vehicle_end_time") {
			latestEnd = strconv.FormatInt(*ve.End, 10)
		}
		if ve.MaxDur != nil && !c.disabled("maximum_duration") {
			e := start + int64(*ve.MaxDur)
			if latestEnd == "-" || e < *ve.End {
				latestEnd = strconv.FormatInt(e, 10)
			}
		}
		mult := 1
		if ve.Mult != nil {
			mult = *ve.Mult
		}
		act, minS, minP := 0, 0, 0
		if ve.Activation != nil {
			act = *ve.Activation
		}
		if ve.MinStops != nil {
			minS, minP = *ve.MinStops, *ve.MinPenalty
		}
		emit("inst veh %d %d %s %s %d %d %s %s %s %s %s %s %s %d %d %d", v, start, firstM, lastM, 0, mult, csvI(caps), csvI(sl),
			optI(ve.MaxStops), optI(ve.MaxDist), latestEnd, optI(ve.MaxWait), csvS(ve.Attrs), act, minS, minP)
	}
	rows := func(name string, m [][]int) {
		for i, r := range m {
			emit("inst mat %s %d %s", name, i, csvI0(r))
		}
	}
	rows("dist", c.Dist)
	if c.TD != nil {
		rows("t0d", c.TD.Default)
		for j, fr := range c.TD.Frames {
			if fr.Scale != nil {
				// scaled default: exact rationals (scales are dyadic)
				for i, r := range c.TD.Default {
					ss := make([]string, len(r))
					for k, x := range r {
						ss[k] = rat(float64(x) * *fr.Scale)
					}
					emit("inst mat t0f%d %d %s", j, i, strings.Join(ss, ","))
				}
			} else {
				rows(fmt.Sprintf("t0f%d", j), fr.Matrix)
			}
			emit("inst tdframe 0 %d %d %d", fr.S, fr.E, j+1)
		}
	} else {
		rows("t0", c.Dur)
	}
	for i, u := range d.units {
		par := "-"
		if d.parent[i] >= 0 {
			par = strconv.Itoa(d.parent[i])
		}
		if u.Kind == "stops" {
			arcs := "-"
			if len(u.Arcs) > 0 {
				var as []string
				for _, a := range u.Arcs {
					as = append(as, fmt.Sprintf("%d>%d:%d", a[0], a[1], a[2]))
				}
				arcs = strings.Join(as, ";")
			}
			emit("inst unit %d stops %s %s %s", i, csvI(u.Stops), arcs, par)
		} else {
			kind := u.Kind
			if u.Loose {
				kind = "allloose"
			}
			emit("inst unit %d %s %s - %s", i, kind, csvI(u.Members), par)
		}
	}
	if len(c.Opt.Soft) > 0 {
		var parts []string
		for _, sc := range c.Opt.Soft {
			for ri, r := range d.resNames {
				if r == sc.Res {
					parts = append(parts, fmt.Sprintf("%d:%d:%d", ri, sc.Factor, sc.Offset))
				}
			}
		}
		if len(parts) > 0 {
			emit("inst soft %s", strings.Join(parts, ","))
		}
	}
	emit("inst end")
}

func csvI0(xs []int) string {
	ss := make([]string, len(xs))
	for i, x := range xs {
		ss[i] = strconv.Itoa(x)
	}
	return strings.Join(ss, ",")
}

func (d *Derived) altModelIndex(vehicle, alt int) int {
	for k, ac := range d.altCopy {
		if ac[0] == vehicle && ac[1] == alt {
			return d.nStops + k
		}
	}
	return -1
}

// ---------------------------------------------------------------------------------- observation

// Binding ties the Case's indices to a built nextroute model.
type Binding struct {
	d        *Derived
	model    nextroute.Model
	stopIdx  map[int]int // nextroute model stop index → Case stop index
	unitIdx  map[int]int // nextroute plan unit index → Case unit index
	unitMiss []string
}

func unitKey(stops []int) string {
	s := append([]int(nil), stops...)
	sort.Ints(s)
	return csvI(s)
}

func bind(d *Derived, model nextroute.Model) *Binding {
	b := &Binding{d: d, model: model, stopIdx: map[int]int{}, unitIdx: map[int]int{}}
	// input stops are the first model stops; alternate copies follow in vehicle order
	for i := 0; i < d.nStops+len(d.altCopy); i++ {
		b.stopIdx[i] = i
	}
	var stopsOf func(u nextroute.ModelPlanUnit) []int
	stopsOf = func(u nextroute.ModelPlanUnit) []int {
		switch x := u.(type) {
		case nextroute.ModelPlanStopsUnit:
			var r []int
			for _, s := range x.Stops() {
				r = append(r, s.Index())
			}
			return r
		case nextroute.ModelPlanUnitsUnit:
			var r []int
			for _, m := range x.PlanUnits() {
				r = append(r, stopsOf(m)...)
			}
			return r
		}
		return nil
	}
	var dstops func(i int) []int
	dstops = func(i int) []int {
		u := d.units[i]
		if u.Kind == "stops" {
			return u.Stops
		}
		var r []int
		for _, m := range u.Members {
			r = append(r, dstops(m)...)
		}
		return r
	}
	keyToCase := map[string]int{}
	for i, u := range d.units {
		kind := "S"
		if u.Kind != "stops" {
			kind = "U"
		}
		keyToCase[kind+unitKey(dstops(i))] = i
	}
	for _, u := range model.PlanUnits() {
		kind := "S"
		if _, ok := u.(nextroute.ModelPlanUnitsUnit); ok {
			kind = "U"
		}
		k := kind + unitKey(stopsOf(u))
		if ci, ok := keyToCase[k]; ok {
			b.unitIdx[u.Index()] = ci
			delete(keyToCase, k)
		} else {
			b.unitMiss = append(b.unitMiss, "code-only:"+k)
		}
	}
	for k := range keyToCase {
		b.unitMiss = append(b.unitMiss, "case-only:"+k)
	}
	sort.Strings(b.unitMiss)
	return b
}

// observe renders the real solution: routes, per-stop times, scores per term, collections.
func (b *Binding) observe(sol nextroute.Solution, tag string) string {
	var sb strings.Builder
	sb.WriteString("obs ")
	sb.WriteString(tag)
	sb.WriteString(" R=")
	vehicles := sol.Vehicles()
	for vi, v := range vehicles {
		if vi > 0 {
			sb.WriteByte('|')
		}
		stops := v.SolutionStops()
		if len(stops) <= 2 {
			sb.WriteByte('-')
			continue
		}
		for i, s := range stops[1 : len(stops)-1] {
			if i > 0 {
				sb.WriteByte(',')
			}
			sb.WriteString(strconv.Itoa(s.ModelStop().Index()))
		}
	}
	sb.WriteString(" T=")
	for vi, v := range vehicles {
		if vi > 0 {
			sb.WriteByte('|')
		}
		stops := v.SolutionStops()
		for i, s := range stops[1:] {
			if i > 0 {
				sb.WriteByte(',')
			}
			sb.WriteString(rat(s.TravelDurationValue()) + ":" + rat(s.ArrivalValue()) + ":" + rat(s.StartValue()) + ":" +
				rat(s.EndValue()) + ":" + rat(s.CumulativeTravelDurationValue()))
		}
	}
	sb.WriteString(" S=")
	terms := map[string]float64{}
	for _, t := range b.model.Objective().Terms() {
		terms[termName(t.Objective())] += sol.ObjectiveValue(t.Objective())
	}
	for _, k := range []string{"vehicles_duration", "travel_duration", "unplanned", "activation", "min_stops", "early", "late", "balance", "other"} {
		sb.WriteString(rat(terms[k]))
		sb.WriteByte(',')
	}
	sb.WriteString(rat(sol.Score()))
	sb.WriteString(" B=")
	coll := func(c nextroute.ImmutableSolutionPlanUnitCollection) string {
		var ids []int
		for _, u := range c.SolutionPlanUnits() {
			if ci, ok := b.unitIdx[u.ModelPlanUnit().Index()]; ok {
				ids = append(ids, ci)
			} else {
				ids = append(ids, 100000+u.ModelPlanUnit().Index())
			}
		}
		sort.Ints(ids)
		return csvI(ids)
	}
	sb.WriteString(coll(sol.PlannedPlanUnits()) + "/" + coll(sol.UnPlannedPlanUnits()) + "/" + coll(sol.FixedPlanUnits()))
	return sb.String()
}

func termName(o nextroute.ModelObjective) string {
	s := fmt.Sprintf("%v", o)
	t := fmt.Sprintf("%T", o)
	switch {
	case strings.Contains(t, "vehiclesDurationObjective"):
		return "vehicles_duration"
	case strings.Contains(t, "travelDurationObjective"):
		return "travel_duration"
	case strings.Contains(t, "unplannedObjective"):
		return "unplanned"
	case strings.Contains(t, "vehiclesObjective"):
		return "activation"
	case strings.Contains(t, "minStopsObjective"):
		return "min_stops"
	case strings.Contains(t, "earlinessObjective"):
		return "early"
	case strings.Contains(t, "latestImpl"):
		return "late"
	case strings.Contains(t, "balanceObjective"):
		return "balance"
	}
	_ = s
	return "other"
}
