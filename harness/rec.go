package main

// A recording solution observer: the outcomes of the stops-level plan and un-plan steps that happen inside
// one public call (the feasibility bits of NR.Coll's operations), and per-constraint estimate verdicts.

import (
	"github.com/nextmv-io/nextroute"
)

type planEvent struct {
	Kind string // plan | unplan
	Unit int    // nextroute model plan unit index
	OK   bool
}

type estEvent struct {
	Constraint nextroute.ModelConstraint
	Move       nextroute.SolutionMove
	Violated   bool
}

type recorder struct {
	events    []planEvent
	ests      []estEvent
	keepEsts  bool
	inUnplan  int
}

func (r *recorder) reset() { r.events = r.events[:0]; r.ests = r.ests[:0]; r.inUnplan = 0 }

func (r *recorder) OnNewSolution(nextroute.Model)                                       {}
func (r *recorder) OnNewSolutionCreated(nextroute.Solution)                             {}
func (r *recorder) OnCopySolution(nextroute.Solution)                                   {}
func (r *recorder) OnCopiedSolution(nextroute.Solution)                                 {}
func (r *recorder) OnCheckConstraint(nextroute.ModelConstraint, nextroute.CheckedAt)    {}
func (r *recorder) OnSolutionConstraintChecked(nextroute.ModelConstraint, bool)         {}
func (r *recorder) OnStopConstraintChecked(nextroute.SolutionStop, nextroute.ModelConstraint, bool) {
}
func (r *recorder) OnVehicleConstraintChecked(nextroute.SolutionVehicle, nextroute.ModelConstraint, bool) {
}
func (r *recorder) OnEstimateIsViolated(nextroute.ModelConstraint) {}
func (r *recorder) OnEstimatedIsViolated(m nextroute.SolutionMove, c nextroute.ModelConstraint, v bool, _ nextroute.StopPositionsHint) {
	if r.keepEsts {
		r.ests = append(r.ests, estEvent{Constraint: c, Move: m, Violated: v})
	}
}
func (r *recorder) OnEstimateDeltaObjectiveScore()          {}
func (r *recorder) OnEstimatedDeltaObjectiveScore(float64)  {}
func (r *recorder) OnBestMove(nextroute.Solution)           {}
func (r *recorder) OnBestMoveFound(nextroute.SolutionMove)  {}
func (r *recorder) OnPlan(nextroute.SolutionMove)           {}
func (r *recorder) OnPlanFailed(m nextroute.SolutionMove, _ nextroute.ModelConstraint) {
	if r.inUnplan == 0 && m.PlanUnit() != nil {
		r.events = append(r.events, planEvent{"plan", m.PlanUnit().ModelPlanUnit().Index(), false})
	}
}
func (r *recorder) OnPlanSucceeded(m nextroute.SolutionMove) {
	if r.inUnplan == 0 && m.PlanUnit() != nil {
		r.events = append(r.events, planEvent{"plan", m.PlanUnit().ModelPlanUnit().Index(), true})
	}
}
func (r *recorder) OnUnPlan(nextroute.SolutionPlanStopsUnit) { r.inUnplan++ }
func (r *recorder) OnUnPlanFailed(u nextroute.SolutionPlanStopsUnit) {
	r.inUnplan--
	r.events = append(r.events, planEvent{"unplan", u.ModelPlanUnit().Index(), false})
}
func (r *recorder) OnUnPlanSucceeded(u nextroute.SolutionPlanStopsUnit) {
	r.inUnplan--
	r.events = append(r.events, planEvent{"unplan", u.ModelPlanUnit().Index(), true})
}
