package main

// Stream `sol`: solver trajectories on generated instances. Every solution the solver hands back
// (start solution, every improvement, the final one) is observed and judged by NR.Spec
// (C01–C05, C08); the scores received by the aggregator and the scores delivered on the channel
// are replayed through NR.Emit (C06).

import (
	"context"
	"fmt"
	"math/rand"
	"strings"
	"sync"
	"time"

	"github.com/nextmv-io/nextroute"
	"github.com/nextmv-io/nextroute/factory"
	"github.com/nextmv-io/sdk/run"
)

func init() {
	streams["sol"] = runSol
}

type built struct {
	c     *Case
	d     *Derived
	model nextroute.Model
	b     *Binding
	json  []byte
}

// buildCase builds the real model for a case; err is the factory's answer, pan a recovered panic.
func buildCase(c *Case) (bt *built, err error, pan any) {
	defer func() {
		if r := recover(); r != nil {
			pan = r
		}
	}()
	in, js, e := c.input()
	if e != nil {
		return nil, e, nil
	}
	model, e := factory.NewModel(in, c.options())
	if e != nil {
		return &built{c: c, json: js}, e, nil
	}
	d := derive(c)
	if c.ClaimMetric {
		for _, vt := range model.VehicleTypes() {
			vt.TravelDurationExpression().SetSatisfiesTriangleInequality(true)
		}
	}
	// loose groups exist in the model API only: combine the (root) plan units of their stops into a plan-all unit that
	// may spread over vehicles
	for _, g := range c.Loose {
		seen := map[int]bool{}
		var units []nextroute.ModelPlanUnit
		for _, si := range g {
			if si >= len(model.Stops()) || !model.Stops()[si].HasPlanStopsUnit() {
				continue
			}
			mu := nextroute.ModelPlanUnit(model.Stops()[si].PlanStopsUnit())
			if _, member := mu.PlanUnitsUnit(); member || seen[mu.Index()] {
				continue
			}
			seen[mu.Index()] = true
			units = append(units, mu)
		}
		if len(units) > 1 {
			if _, e := model.NewPlanAllPlanUnits(false, units...); e != nil {
				return &built{c: c, json: js}, e, nil
			}
		}
	}
	return &built{c: c, d: d, model: model, b: bind(d, model), json: js}, nil, nil
}

func errKind(err error) string {
	s := err.Error()
	for _, k := range []string{"infeasible initial solution", "no feasible route", "overlap", "capacity", "start level",
		"window", "group", "alternate", "precede", "cycle", "matrix"} {
		if strings.Contains(s, k) {
			return k
		}
	}
	if len(s) > 40 {
		s = s[:40]
	}
	return s
}

type hookRec struct {
	mu     sync.Mutex
	scores []float64
}

func solveCtx(d time.Duration) (context.Context, context.CancelFunc) {
	ctx := context.WithValue(context.Background(), run.Start, time.Now())
	return context.WithTimeout(ctx, d)
}

func runSol(o *Out, rng *rand.Rand, thorough bool) {
	o.Meta.Rule = "a case = generated instance (features toggled independently) × solver options; every solution " +
		"delivered on the channel is one observation judged by NR.Spec; non-trivial = an observation with at least " +
		"one planned multi-stop / nested unit or an active limit; distinct by feature set"
	ncases, iters := 150, 400
	if thorough {
		ncases, iters = 2500, 2000
	}
	seenFeat := map[string]bool{}
	for ci := 0; ci < ncases; ci++ {
		rng := o.CaseRng(ci)
		p := fullProfile(4+rng.Intn(9), 1+rng.Intn(3))
		if ci%4 == 1 {
			p.Tight = true
		}
		c := genCase(rng, p)
		c.Solve = &CSolve{Runs: []int{1, 1, 2, 4}[rng.Intn(4)], Starts: rng.Intn(3), Det: rng.Intn(2) == 0, Iters: iters}
		if ci%3 == 2 {
			// start solutions supplied by the caller, more of them than runs, a budget that the first runs may use up:
			// the run that would start from the best of them may never begin
			c.Solve.Explicit = 3 + rng.Intn(3)
			c.Solve.ExplicitSeed = rng.Int63()
			c.Solve.Starts = 0
			c.Solve.Runs = 1 + rng.Intn(2)
			c.Solve.Iters = []int{0, 1, 3, 10, 40}[rng.Intn(5)]
		}
		if replayFile != "" {
			c = loadReplayCase(replayFile)
			if c.Solve == nil {
				c.Solve = &CSolve{Runs: 1, Starts: 0, Det: true, Iters: iters}
			}
			ncases = 1
		}
		if !o.BeginCase(ci, c) {
			continue
		}
		o.Meta.Cases++
		bt, err, pan := buildCase(c)
		if pan != nil {
			o.Violate(Violation{Property: "C16", Clause: "panic-in-build", Sig: "C16|panic-in-build|" + c.featureKey(),
				Detail: fmt.Sprint(pan), Replay: c})
			continue
		}
		if err != nil {
			o.Count("build-error:" + errKind(err))
			continue
		}
		if len(bt.b.unitMiss) > 0 {
			o.Count("unit-derivation-differs")
			o.Meta.Notes = append(o.Meta.Notes, "unit derivation differs: "+strings.Join(bt.b.unitMiss, " "))
		}
		runs, nstart := c.Solve.Runs, c.Solve.Starts
		opt := nextroute.ParallelSolveOptions{Iterations: c.Solve.Iters, Duration: 20 * time.Second, ParallelRuns: runs,
			StartSolutions: nstart, RunDeterministically: c.Solve.Det}
		if c.Solve.Iters == 0 {
			opt.Duration = 300 * time.Millisecond // nobody iterates: the channel closes at the deadline
		}
		rec := &hookRec{}
		nextroute.VerifHook = func(site string, args ...any) {
			if site == "agg_score" {
				rec.mu.Lock()
				rec.scores = append(rec.scores, args[0].(float64))
				rec.mu.Unlock()
			}
		}
		var startSols []nextroute.Solution
		var startScores []float64
		if c.Solve.Explicit > 0 {
			startSols, startScores = explicitStarts(bt.model, c.Solve.Explicit, c.Solve.ExplicitSeed)
			o.Count(fmt.Sprintf("explicit-start-solutions:%d", len(startSols)))
		}
		sols, starts, serr, span := solveAllWith(bt.model, opt, nil, startSols...)
		if len(startSols) > 0 {
			starts = startScores
		}
		nextroute.VerifHook = nil
		if span != nil {
			o.Violate(Violation{Property: "C16", Clause: "panic-in-solve", Sig: "C16|panic-in-solve", Detail: fmt.Sprint(span), Replay: c})
			continue
		}
		if serr != nil {
			o.Count("solve-error:" + errKind(serr))
			// the input's initial stops are rejected (with an error, as C16 asks): infeasible, or an order the unit's DAG
			// (direct arcs included) does not allow — the generator's initial routes respect precedence, not adjacency
			if strings.Contains(serr.Error(), "infeasible initial") || strings.Contains(serr.Error(), "no feasible route") ||
				strings.Contains(serr.Error(), "in start assignment of vehicle") {
				continue
			}
			o.Violate(Violation{Property: "C16", Clause: "engine-error", Sig: "C16|engine-error|" + errKind(serr), Detail: serr.Error(), Replay: c})
			continue
		}
		bt.d.writeInst(o)
		for i, s := range sols {
			tag := fmt.Sprintf("c%d.%d.solver", ci, i)
			o.Op(bt.b.observe(s, tag), "obs ok")
		}
		o.CountN("observations", len(sols))
		// C06 lines
		if len(sols) > 0 {
			line := "emit start"
			if len(starts) == 0 {
				line += " " + rat(sols[0].Score())
			}
			for _, s := range starts {
				line += " " + rat(s)
			}
			o.Op(line, "emit start")
			for _, x := range rec.scores {
				o.Op("emit recv "+rat(x), "emit recv")
			}
			var del []string
			for _, s := range sols {
				del = append(del, rat(s.Score()))
			}
			o.Op("emit end", "emit end "+strings.Join(del, ","))
			o.CountN("aggregator-received", len(rec.scores))
			// the property's clauses on the code's own values
			for i := 1; i < len(sols); i++ {
				if !(sols[i].Score() < sols[i-1].Score()) {
					o.Violate(Violation{Property: "C06", Clause: "not-strictly-decreasing", Sig: "C06|not-strictly-decreasing",
						Detail: fmt.Sprintf("delivered %v then %v", sols[i-1].Score(), sols[i].Score()), Replay: c})
				}
			}
			last := sols[len(sols)-1].Score()
			for _, x := range rec.scores {
				if x < last {
					o.Violate(Violation{Property: "C06", Clause: "last-is-not-best", Sig: "C06|last-is-not-best",
						Detail: fmt.Sprintf("a run reported %v, last delivered %v", x, last), Replay: c})
				}
			}
			for _, s := range starts {
				if last > s {
					o.Violate(Violation{Property: "C06", Clause: "worse-than-start", Sig: "C06|worse-than-start",
						Detail: fmt.Sprintf("start %v, last delivered %v", s, last), Replay: c})
				}
			}
		}
		if !seenFeat[c.featureKey()] {
			seenFeat[c.featureKey()] = true
			o.Distinct("feature-sets")
		}
		for _, f := range c.Features {
			o.Count("feature:" + f)
		}
		o.Sample(map[string]any{"features": c.Features, "stops": len(c.Stops), "vehicles": len(c.Vehicles),
			"runs": runs, "start_solutions": nstart, "delivered": len(sols)})
		if replayFile != "" {
			break
		}
	}
}

// solveAll runs the parallel solver as the CLI does and collects everything delivered.
// starts: scores of the supplied start solutions (the wrapper constructs them itself, so the
// first delivered score is used by the caller when this is empty).
func solveAll(model nextroute.Model, opt nextroute.ParallelSolveOptions) (sols []nextroute.Solution, starts []float64, err error, pan any) {
	return solveAllWith(model, opt, nil)
}

// solveAllWith: as solveAll, with a hook to register event handlers on the solver before it starts.
func solveAllWith(model nextroute.Model, opt nextroute.ParallelSolveOptions, setup func(nextroute.ParallelSolver), startSols ...nextroute.Solution) (sols []nextroute.Solution, starts []float64, err error, pan any) {
	defer func() {
		if r := recover(); r != nil {
			pan = r
		}
	}()
	solver, e := nextroute.NewParallelSolver(model)
	if e != nil {
		return nil, nil, e, nil
	}
	if setup != nil {
		setup(solver)
	}
	ctx, cancel := solveCtx(60 * time.Second)
	defer cancel()
	ch, e := solver.Solve(ctx, opt, startSols...)
	if e != nil {
		return nil, nil, e, nil
	}
	for s := range ch {
		if s.Error != nil {
			return sols, nil, s.Error, nil
		}
		sols = append(sols, s.Solution)
	}
	return sols, nil, nil, nil
}


// explicitStarts builds k start solutions with different numbers of units planned (so different scores), in an
// order drawn from the seed — the caller-supplied start solutions of the C06 guarantee ("never worse than the best
// supplied start solution").
func explicitStarts(model nextroute.Model, k int, seed int64) (out []nextroute.Solution, scores []float64) {
	defer func() {
		if r := recover(); r != nil {
			out, scores = nil, nil
		}
	}()
	rng := rand.New(rand.NewSource(seed))
	ctx := context.Background()
	for j := 0; j < k; j++ {
		s, err := nextroute.NewSolution(model)
		if err != nil {
			return nil, nil
		}
		s.SetRandom(rand.New(rand.NewSource(seed + int64(j))))
		n := rng.Intn(1 + len(s.UnPlannedPlanUnits().SolutionPlanUnits()))
		for i := 0; i < n; i++ {
			us := s.UnPlannedPlanUnits().SolutionPlanUnits()
			if len(us) == 0 {
				break
			}
			mv := s.BestMove(ctx, us[rng.Intn(len(us))])
			if mv.IsExecutable() {
				if ok, err := mv.Execute(ctx); err != nil || !ok {
					break
				}
			}
		}
		out = append(out, s)
	}
	rng.Shuffle(len(out), func(i, j int) { out[i], out[j] = out[j], out[i] })
	for _, s := range out {
		scores = append(scores, s.Score())
	}
	return out, scores
}
