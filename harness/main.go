// Command harness drives the real nextroute code (module replaced by /repo) and writes,
// per stream, the operation lines the Lean driver replays (<stream>.ops), the code's own
// answers in the driver's output format (<stream>.go) and a meta file with the input
// distribution, samples and any violation found directly on the code's values.
package main

import (
	"bufio"
	"encoding/json"
	"fmt"
	"math/big"
	"math/rand"
	"os"
	"path/filepath"
	"sort"
	"strconv"
)

// Out collects the two line streams and the meta data of one run.
type Out struct {
	dir    string
	name   string
	ops    *bufio.Writer
	ans    *bufio.Writer
	fo, fa *os.File
	Meta   Meta
}

// Violation is a property failure observed on the real code's own values.
type Violation struct {
	Property string `json:"property"`
	Clause   string `json:"clause"`
	Sig      string `json:"sig"`
	Detail   string `json:"detail"`
	Replay   any    `json:"replay"`
}

// Meta is what the runner turns into evidence.
type Meta struct {
	Stream      string         `json:"stream"`
	Seed        int64          `json:"seed"`
	Tier        string         `json:"tier"`
	Cases       int            `json:"cases"`
	Ops         int            `json:"ops"`
	Nontrivial  map[string]int `json:"nontrivial"`
	Counters    map[string]int `json:"counters"`
	Samples     []any          `json:"samples"`
	Violations  []Violation    `json:"violations"`
	Rule        string         `json:"rule"`
	Notes       []string       `json:"notes"`
}

func newOut(dir, name string, seed int64, tier string) *Out {
	must(os.MkdirAll(dir, 0o755))
	fo, err := os.Create(filepath.Join(dir, name+".ops"))
	must(err)
	fa, err := os.Create(filepath.Join(dir, name+".go"))
	must(err)
	return &Out{dir: dir, name: name, fo: fo, fa: fa,
		ops: bufio.NewWriterSize(fo, 1<<20), ans: bufio.NewWriterSize(fa, 1<<20),
		Meta: Meta{Stream: name, Seed: seed, Tier: tier,
			Nontrivial: map[string]int{}, Counters: map[string]int{}}}
}

// Op writes one operation line and the code's answer to it.
func (o *Out) Op(op string, answer string) {
	o.ops.WriteString(op)
	o.ops.WriteByte('\n')
	o.ans.WriteString(answer)
	o.ans.WriteByte('\n')
	o.Meta.Ops++
}

func (o *Out) Count(k string)      { o.Meta.Counters[k]++ }
func (o *Out) CountN(k string, n int) { o.Meta.Counters[k] += n }
func (o *Out) Distinct(k string)   { o.Meta.Nontrivial[k]++ }
func (o *Out) Sample(s any) {
	if len(o.Meta.Samples) < 5 {
		o.Meta.Samples = append(o.Meta.Samples, s)
	}
}
func (o *Out) Violate(v Violation) {
	if len(o.Meta.Violations) < 50 {
		o.Meta.Violations = append(o.Meta.Violations, v)
	}
}

func (o *Out) Close() {
	o.ops.Flush()
	o.ans.Flush()
	o.fo.Close()
	o.fa.Close()
	b, err := json.MarshalIndent(o.Meta, "", " ")
	must(err)
	must(os.WriteFile(filepath.Join(o.dir, o.name+".meta.json"), b, 0o644))
}

func must(err error) {
	if err != nil {
		panic(err)
	}
}

// rat prints a float64 exactly as `n` or `n/d` (what NR.parseRat? reads).
func rat(f float64) string {
	if f == float64(int64(f)) && f < 1e15 && f > -1e15 {
		return strconv.FormatInt(int64(f), 10)
	}
	r := new(big.Rat)
	if r.SetFloat64(f) == nil {
		return "nan"
	}
	if r.IsInt() {
		return r.Num().String()
	}
	return r.Num().String() + "/" + r.Denom().String()
}

func sortedKeys(m map[string]int) []string {
	ks := make([]string, 0, len(m))
	for k := range m {
		ks = append(ks, k)
	}
	sort.Strings(ks)
	return ks
}

func envInt(name string, def int64) int64 {
	if v := os.Getenv(name); v != "" {
		if n, err := strconv.ParseInt(v, 10, 64); err == nil {
			return n
		}
	}
	return def
}

var streams = map[string]func(o *Out, rng *rand.Rand, thorough bool){}

func main() {
	if len(os.Args) < 3 {
		fmt.Fprintln(os.Stderr, "usage: harness <stream> <outdir> [replay-file]")
		os.Exit(2)
	}
	stream, dir := os.Args[1], os.Args[2]
	seed := envInt("VERIF_SEED", 1)
	tier := os.Getenv("VERIF_TIER")
	if tier == "" {
		tier = "quick"
	}
	f, ok := streams[stream]
	if !ok {
		fmt.Fprintln(os.Stderr, "unknown stream", stream)
		os.Exit(2)
	}
	if len(os.Args) > 3 {
		replayFile = os.Args[3]
	}
	o := newOut(dir, stream, seed, tier)
	rng := rand.New(rand.NewSource(seed*7919 + int64(len(stream))))
	f(o, rng, tier == "thorough")
	o.Close()
}

// replayFile, when set, makes a stream re-run exactly the case stored in that file.
var replayFile string
