// Command harness drives the real nextroute code (module replaced by /repo) and writes,
// per stream, the operation lines the Lean driver replays (<stream>.ops), the code's own
// answers in the driver's output format (<stream>.go) and a meta file with the input
// distribution, samples and any violation found directly on the code's values.
package main

import (
	"bufio"
	"bytes"
	"encoding/json"
	"fmt"
	"math/big"
	"math/rand"
	"os"
	"os/exec"
	"path/filepath"
	"sort"
	"strconv"
	"strings"
)

// Out collects the two line streams and the meta data of one run.
type Out struct {
	dir    string
	name   string
	ops    *bufio.Writer
	ans    *bufio.Writer
	fo, fa *os.File
	Meta   Meta
	// lines of the case being run; written out when the next case begins, so that a crash of the
	// process loses exactly the current case in both files
	curOps, curAns []byte
	from           int
}

// Violation is a property failure observed on the real code's own values.
type Violation struct {
	Property string `json:"property"`
	Clause   string `json:"clause"`
	Sig      string `json:"sig"`
	Detail   string `json:"detail"`
	Replay   any    `json:"replay"`
}

// Meta is what the runner turns into evidence.
type Meta struct {
	Stream      string         `json:"stream"`
	Seed        int64          `json:"seed"`
	Tier        string         `json:"tier"`
	Cases       int            `json:"cases"`
	Ops         int            `json:"ops"`
	Nontrivial  map[string]int `json:"nontrivial"`
	Counters    map[string]int `json:"counters"`
	Samples     []any          `json:"samples"`
	Violations  []Violation    `json:"violations"`
	Rule        string         `json:"rule"`
	Notes       []string       `json:"notes"`
}

func newOut(dir, name string, seed int64, tier string) *Out {
	must(os.MkdirAll(dir, 0o755))
	fo, err := os.OpenFile(filepath.Join(dir, name+".ops"), os.O_APPEND|os.O_CREATE|os.O_WRONLY, 0o644)
	must(err)
	fa, err := os.OpenFile(filepath.Join(dir, name+".go"), os.O_APPEND|os.O_CREATE|os.O_WRONLY, 0o644)
	must(err)
	return &Out{dir: dir, name: name, fo: fo, fa: fa,
		ops: bufio.NewWriterSize(fo, 1<<20), ans: bufio.NewWriterSize(fa, 1<<20),
		Meta: Meta{Stream: name, Seed: seed, Tier: tier, Samples: []any{}, Violations: []Violation{}, Notes: []string{},
			Nontrivial: map[string]int{}, Counters: map[string]int{}}}
}

// Op writes one operation line and the code's answer to it.
func (o *Out) Op(op string, answer string) {
	o.curOps = append(append(o.curOps, op...), '\n')
	o.curAns = append(append(o.curAns, answer...), '\n')
	o.Meta.Ops++
}

// CaseRng: every case draws from its own generator, derived from (seed, stream, case index), so
// that case k is the same whether or not earlier cases ran in this process.
func (o *Out) CaseRng(ci int) *rand.Rand {
	return rand.New(rand.NewSource(o.Meta.Seed*1000003 + int64(len(o.name))*7919 + int64(ci)*104729))
}

func (o *Out) commit() {
	o.ops.Write(o.curOps)
	o.ans.Write(o.curAns)
	o.curOps, o.curAns = o.curOps[:0], o.curAns[:0]
	o.ops.Flush()
	o.ans.Flush()
}

// BeginCase commits the previous case, records the case about to run (so that a crash of the whole
// process can be attributed to it) and tells the stream whether to run it (false: already done
// by an earlier child process — the stream must still have drawn the same random numbers).
func (o *Out) BeginCase(ci int, c any) bool {
	o.commit()
	if ci < o.from {
		return false
	}
	b, _ := json.Marshal(map[string]any{"index": ci, "case": c})
	os.WriteFile(filepath.Join(o.dir, o.name+".cur"), b, 0o644)
	// every case that runs is kept (one JSON object per line) so that a verdict on one of its
	// observations can be turned into a replay file
	if f, err := os.OpenFile(filepath.Join(o.dir, o.name+".cases.jsonl"), os.O_APPEND|os.O_CREATE|os.O_WRONLY, 0o644); err == nil {
		f.Write(append(b, '\n'))
		f.Close()
	}
	return true
}

func (o *Out) Count(k string)      { o.Meta.Counters[k]++ }
func (o *Out) CountN(k string, n int) { o.Meta.Counters[k] += n }
func (o *Out) Distinct(k string)   { o.Meta.Nontrivial[k]++ }
func (o *Out) Sample(s any) {
	if len(o.Meta.Samples) < 5 {
		o.Meta.Samples = append(o.Meta.Samples, s)
	}
}
func (o *Out) Violate(v Violation) {
	if len(o.Meta.Violations) < 50 {
		o.Meta.Violations = append(o.Meta.Violations, v)
	}
}

func (o *Out) Close() {
	o.commit()
	os.Remove(filepath.Join(o.dir, o.name+".cur"))
	o.fo.Close()
	o.fa.Close()
	b, err := json.MarshalIndent(o.Meta, "", " ")
	must(err)
	must(os.WriteFile(filepath.Join(o.dir, fmt.Sprintf("%s.meta.%d.json", o.name, o.from)), b, 0o644))
}

func must(err error) {
	if err != nil {
		panic(err)
	}
}

// rat prints a float64 exactly as `n` or `n/d` (what NR.parseRat? reads).
func rat(f float64) string {
	if f == float64(int64(f)) && f < 1e15 && f > -1e15 {
		return strconv.FormatInt(int64(f), 10)
	}
	r := new(big.Rat)
	if r.SetFloat64(f) == nil {
		return "nan"
	}
	if r.IsInt() {
		return r.Num().String()
	}
	return r.Num().String() + "/" + r.Denom().String()
}

func sortedKeys(m map[string]int) []string {
	ks := make([]string, 0, len(m))
	for k := range m {
		ks = append(ks, k)
	}
	sort.Strings(ks)
	return ks
}

func envInt(name string, def int64) int64 {
	if v := os.Getenv(name); v != "" {
		if n, err := strconv.ParseInt(v, 10, 64); err == nil {
			return n
		}
	}
	return def
}

var streams = map[string]func(o *Out, rng *rand.Rand, thorough bool){}

func main() {
	if len(os.Args) < 3 {
		fmt.Fprintln(os.Stderr, "usage: harness <stream> <outdir> [replay-file]")
		os.Exit(2)
	}
	stream, dir := os.Args[1], os.Args[2]
	// VERIF_SEED_ADD: a second, independent pass of a stream within one check (different generated cases)
	seed := envInt("VERIF_SEED", 1) + envInt("VERIF_SEED_ADD", 0)*1000003
	tier := os.Getenv("VERIF_TIER")
	if tier == "" {
		tier = "quick"
	}
	f, ok := streams[stream]
	if !ok {
		fmt.Fprintln(os.Stderr, "unknown stream", stream)
		os.Exit(2)
	}
	if len(os.Args) > 3 {
		replayFile = os.Args[3]
	}
	if os.Getenv("VERIF_CHILD") == "" {
		parent(stream, dir, seed, tier)
		return
	}
	o := newOut(dir, stream, seed, tier)
	o.from = int(envInt("VERIF_FROM", 0))
	rng := rand.New(rand.NewSource(seed*7919 + int64(len(stream))))
	f(o, rng, tier == "thorough")
	o.Close()
}

// parent runs the stream in child processes: a panic inside a goroutine started by the library
// cannot be recovered and kills the child; the parent records it as a crash of the case that was
// running and continues with the next case in a fresh child.
func parent(stream, dir string, seed int64, tier string) {
	must(os.MkdirAll(dir, 0o755))
	for _, suf := range []string{".ops", ".go", ".cur", ".cases.jsonl"} {
		os.Remove(filepath.Join(dir, stream+suf))
	}
	olds, _ := filepath.Glob(filepath.Join(dir, stream+".meta.*.json"))
	for _, f := range olds {
		os.Remove(f)
	}
	from := 0
	var crashes []Violation
	for attempt := 0; attempt < 40; attempt++ {
		cmd := exec.Command(os.Args[0], os.Args[1:]...)
		cmd.Env = append(os.Environ(), "VERIF_CHILD=1", "VERIF_FROM="+strconv.Itoa(from))
		var stderr bytes.Buffer
		cmd.Stderr = &stderr
		cmd.Stdout = os.Stdout
		err := cmd.Run()
		if err == nil {
			break
		}
		curPath := filepath.Join(dir, stream+".cur")
		b, rerr := os.ReadFile(curPath)
		if rerr != nil {
			fmt.Fprintln(os.Stderr, "harness child failed before its first case:", err, tail(stderr.String(), 3000))
			os.Exit(3)
		}
		var cur struct {
			Index int             `json:"index"`
			Case  json.RawMessage `json:"case"`
		}
		must(json.Unmarshal(b, &cur))
		msg := tail(stderr.String(), 2500)
		first := msg
		if i := strings.Index(stderr.String(), "panic:"); i >= 0 {
			first = stderr.String()[i:]
			if j := strings.Index(first, "\n"); j > 0 {
				first = first[:j]
			}
		} else if i := strings.Index(stderr.String(), "fatal error:"); i >= 0 {
			first = stderr.String()[i:]
			if j := strings.Index(first, "\n"); j > 0 {
				first = first[:j]
			}
		}
		crashes = append(crashes, Violation{Property: "C16", Clause: "process-crash", Sig: "C16|process-crash|" + crashSite(stderr.String()),
			Detail: first + " || " + msg, Replay: map[string]any{"case": cur.Case, "stream": stream, "index": cur.Index}})
		os.Remove(curPath)
		from = cur.Index + 1
	}
	// merge the children's meta files
	merged := Meta{Stream: stream, Seed: seed, Tier: tier, Nontrivial: map[string]int{}, Counters: map[string]int{},
		Samples: []any{}, Violations: []Violation{}, Notes: []string{}}
	files, _ := filepath.Glob(filepath.Join(dir, stream+".meta.*.json"))
	sort.Strings(files)
	for _, f := range files {
		b, err := os.ReadFile(f)
		if err != nil {
			continue
		}
		var m Meta
		dec := json.NewDecoder(bytes.NewReader(b))
		dec.UseNumber() // replays carry 63-bit seeds: float64 would round them
		if dec.Decode(&m) != nil {
			continue
		}
		merged.Cases += m.Cases
		merged.Ops += m.Ops
		for k, v := range m.Nontrivial {
			merged.Nontrivial[k] += v
		}
		for k, v := range m.Counters {
			merged.Counters[k] += v
		}
		merged.Samples = append(merged.Samples, m.Samples...)
		merged.Violations = append(merged.Violations, m.Violations...)
		merged.Notes = append(merged.Notes, m.Notes...)
		if m.Rule != "" {
			merged.Rule = m.Rule
		}
	}
	merged.Violations = append(merged.Violations, crashes...)
	merged.Counters["process-crashes"] = len(crashes)
	if len(merged.Samples) > 5 {
		merged.Samples = merged.Samples[:5]
	}
	// ops counted by the children include lines lost in a crash; recount from the file
	if b, err := os.ReadFile(filepath.Join(dir, stream+".ops")); err == nil {
		merged.Ops = bytes.Count(b, []byte{'\n'})
	}
	b, _ := json.MarshalIndent(merged, "", " ")
	must(os.WriteFile(filepath.Join(dir, stream+".meta.json"), b, 0o644))
}

func tail(s string, n int) string {
	if len(s) > n {
		return s[len(s)-n:]
	}
	return s
}

// crashSite: the first frame of the trace inside the nextroute module (file:line), for signatures.
func crashSite(trace string) string {
	for _, line := range strings.Split(trace, "\n") {
		line = strings.TrimSpace(line)
		if strings.HasPrefix(line, "/repo/") || strings.Contains(line, "/nextroute/") {
			if i := strings.Index(line, " "); i > 0 {
				line = line[:i]
			}
			if j := strings.LastIndex(line, "/"); j >= 0 {
				line = line[j+1:]
			}
			if k := strings.Index(line, ":"); k > 0 {
				return line[:k]
			}
			return line
		}
	}
	return "unknown"
}

// replayFile, when set, makes a stream re-run exactly the case stored in that file.
var replayFile string
