#!/bin/sh
# hbuild.sh <repo-tree> <output-binary>: build the harness against another tree than /repo (scratch worktrees).
R=$1; O=$2
export GOFLAGS=-mod=mod GOPROXY=off GOSUMDB=off GOTOOLCHAIN=local
T=$(mktemp -d /root/.nrscratch/hb.XXXXXX)
cp /verif/harness/*.go /verif/harness/go.mod "$T/"; cp "$R/go.sum" "$T/go.sum"
sed -i "s#=> /repo#=> $R#" "$T/go.mod"
(cd "$T" && go build -tags verif -o "$O" .); rc=$?
rm -rf "$T"; exit $rc
