#!/bin/sh
# seedconfirm.sh <worktree> <demo-dir (relative to the worktree root, e.g. . or factory)> <go test -run regex>
# Confirms a seeded change in its scratch worktree: demo passes without the change, fails with it, and
# the pinned suite passes with it. Leaves the worktree clean.
W=$1; D=$2; R=$3
export GOFLAGS=-mod=mod GOPROXY=off GOSUMDB=off GOTOOLCHAIN=local
cd "$W" || exit 2
git checkout -- . ; rm -f "$D/seed_demo_test.go"
git apply --check seed_out/patch.diff || { echo "CONFIRM: patch does not apply"; exit 2; }
mv seed_out /tmp/seed_out.$$   # keep it out of ./... while the suite runs
cp /tmp/seed_out.$$/seed_demo_test.go "$D/"
if (cd "$D" && go test -mod=mod -vet=off -count=1 $SEED_TAGS -run "$R" . >/tmp/seedc.$$ 2>&1); then echo "CONFIRM: demo passes without the change: yes"; else echo "CONFIRM: demo passes without the change: NO"; tail -5 /tmp/seedc.$$; fi
git apply /tmp/seed_out.$$/patch.diff
if (cd "$D" && go test -mod=mod -vet=off -count=1 $SEED_TAGS -run "$R" . >/tmp/seedc.$$ 2>&1); then echo "CONFIRM: demo fails with the change: NO (passes)"; else echo "CONFIRM: demo fails with the change: yes"; grep -m3 -E "^\s+.*(Error|error|mismatch|FAIL|got|want)" /tmp/seedc.$$ | cut -c1-200; fi
rm -f "$D/seed_demo_test.go"
echo "CONFIRM: suite with the change: $(/verif/tools/baseline.sh "$W")"
git checkout -- . ; mv /tmp/seed_out.$$ seed_out; rm -f /tmp/seedc.$$
git status --short | head -3
