#!/bin/sh
# seed2.sh <worktree> <demo-dir> <regex> <checks...>: confirm the seeded change in its worktree, then apply
# it to /repo's working tree, run the given checks (in parallel), and undo it.
W=$1; D=$2; R=$3; shift 3
/verif/tools/seedconfirm.sh "$W" "$D" "$R"
cd /repo && git apply "$W/seed_out/patch.diff" || exit 2
export GOFLAGS=-mod=mod GOPROXY=off GOSUMDB=off GOTOOLCHAIN=local
go build ./... || { git checkout -- .; echo "does not build"; exit 2; }
cd /verif
for id in "$@"; do
  ( ./tools/check $id > .work/seed2.$id.out 2>&1 ) &
done
wait
for id in "$@"; do
  echo "--- $id"; grep -v "^KNOWN-FINDING" .work/seed2.$id.out | tail -6 | cut -c1-300
done
git -C /repo checkout -- .
git -C /repo status --short | head -3
