#!/usr/bin/env python3
"""mkcorpus.py <stream> <name> <replay.json> — store the case of a replay file in /verif/corpus/<stream>/<name>.json"""
import json, os, sys
VERIF = os.path.dirname(os.path.dirname(os.path.abspath(__file__)))
stream, name, src = sys.argv[1:4]
r = json.load(open(src))
rep = r.get("replay", r)
# spec verdicts wrap the case as {"stream", "seed", "observation", "case"}; harness violations carry the case itself
case = rep["case"] if isinstance(rep, dict) and "stream" in rep and "case" in rep else rep
d = os.path.join(VERIF, "corpus", stream)
os.makedirs(d, exist_ok=True)
out = {"found_as": r.get("sig"), "detail": str(r.get("detail"))[:300], "replay": case}
json.dump(out, open(os.path.join(d, name + ".json"), "w"), indent=1)
print("wrote", os.path.join(d, name + ".json"))
