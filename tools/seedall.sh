#!/bin/sh
# seedall.sh: apply every saved seeded change in turn to a scratch worktree of /repo's HEAD, run the check of the
# property it breaks against that worktree (VERIF_REPO), undo; report caught / MISSED. /repo itself is not touched, so
# other checks may run at the same time. The worktree is removed at the end.
cd /verif
W=/root/.nrscratch/seedall-wt
git -C /repo worktree remove --force $W 2>/dev/null
git -C /repo worktree add -q --detach $W HEAD || exit 2
for d in /verif/seeded/*/; do
  id=$(basename $d); prop=$(python3 -c "import json,sys; print(json.load(open('$d/meta.json'))['breaks_property'])")
  if python3 -c "import json,sys; sys.exit(0 if 'neutralised_by' in json.load(open('$d/meta.json')) else 1)"; then echo "$id $prop neutralised-by-a-later-repair (skipped)"; continue; fi
  if ! git -C $W apply --check $d/patch.diff 2>/dev/null; then echo "$id $prop PATCH-DOES-NOT-APPLY"; continue; fi
  git -C $W apply $d/patch.diff
  out=$(VERIF_REPO=$W ./tools/check $prop 2>&1); rc=$?
  git -C $W checkout -- .
  n=$(echo "$out" | grep -c "^VIOLATION")
  nf=$(echo "$out" | grep "^VIOLATION" | grep -c "no-failing-input-found")
  if [ $rc -ne 0 ] && [ $n -gt 0 ]; then echo "$id $prop caught violations=$n without-input=$nf"; else echo "$id $prop MISSED rc=$rc"; fi
done
git -C /repo worktree remove --force $W
