#!/bin/sh
# seedall.sh: apply every saved seeded change in turn, run the check of the property it breaks, undo; report
# caught / MISSED. Modifies /repo's working tree while it runs (do not run other checks at the same time).
cd /verif
for d in /verif/seeded/*/; do
  id=$(basename $d); prop=$(python3 -c "import json,sys; print(json.load(open('$d/meta.json'))['breaks_property'])")
  if ! git -C /repo apply --check $d/patch.diff 2>/dev/null; then echo "$id $prop PATCH-DOES-NOT-APPLY"; continue; fi
  git -C /repo apply $d/patch.diff
  out=$(./tools/check $prop 2>&1); rc=$?
  git -C /repo checkout -- .
  n=$(echo "$out" | grep -c "^VIOLATION")
  nf=$(echo "$out" | grep "^VIOLATION" | grep -c "no-failing-input-found")
  if [ $rc -ne 0 ] && [ $n -gt 0 ]; then echo "$id $prop caught violations=$n without-input=$nf"; else echo "$id $prop MISSED rc=$rc"; fi
done
git -C /repo status --short | head -3
