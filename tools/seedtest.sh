#!/bin/sh
# seedtest.sh <seed-dir> <check-ids...>: apply a seeded change to /repo, run the given checks, undo.
D=$1; shift
cd /repo && git apply --check "$D/patch.diff" || { echo "patch does not apply"; exit 2; }
git apply "$D/patch.diff"
export GOFLAGS=-mod=mod GOPROXY=off GOSUMDB=off GOTOOLCHAIN=local
go build ./... || { git checkout -- .; echo "does not build"; exit 2; }
cd /verif
for id in "$@"; do
  echo "--- $id"
  ./tools/check $id 2>&1 | grep -v "^KNOWN-FINDING" | tail -8 | cut -c1-260
done
git -C /repo checkout -- .
git -C /repo status --short | head -3
