#!/bin/sh
# seed3.sh <worktree> <demo-dir> <regex> <checks...>: confirm the seeded change in its scratch worktree, then run the given
# checks against THAT worktree with the change applied (VERIF_REPO), and clean the worktree. /repo is not touched, so
# several seeds can be examined while /repo is busy; tools/seedall.sh later applies every kept change to /repo itself.
W=$1; D=$2; R=$3; shift 3
# bring the worktree to /repo's current HEAD (repairs committed since the worktree was made)
(cd "$W" && git checkout -q -- . && git checkout -q --detach "$(git -C /repo rev-parse HEAD)")
/verif/tools/seedconfirm.sh "$W" "$D" "$R"
cd "$W" && git apply seed_out/patch.diff || exit 2
mv seed_out /tmp/seed_out.$$.k
cd /verif
for id in "$@"; do
  ( VERIF_REPO="$W" ./tools/check $id > .work/seed3.$(basename $W).$id.out 2>&1 ) &
done
wait
for id in "$@"; do
  echo "--- $id"; grep -v "^KNOWN-FINDING" .work/seed3.$(basename $W).$id.out | tail -6 | cut -c1-300
done
cd "$W" && git checkout -- . && mv /tmp/seed_out.$$.k seed_out; git status --short | head -3
