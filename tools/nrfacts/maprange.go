package main

// mapRanges (C12): every place where the ORDER of a Go map can reach a result — a `for … range` over an expression that
// is (syntactically) a map, and every call of a helper that returns the keys or values of a map in iteration order
// (common.Keys, common.Values, maps.Keys, maps.Values). One row per site: package directory, file, function, the ranged
// expression. The theorem file (NR/FactThms/MapOrderFacts.lean) holds the reviewed list of sites with the reason why the
// order cannot reach a result there; a site that is not on the list breaks the theorem.
//
// "Syntactically a map": an identifier bound in the function to `make(map…)`, a map literal, a `var x map…`, a parameter
// or result of map type, the result of a function of the package whose first result type is a map, or a selector whose
// field name is declared with a map type in some struct of the package.

import (
	"go/ast"
	"go/token"
	"path/filepath"
	"sort"
	"strings"
)

func init() { extraExtractors = append(extraExtractors, mapRangeFacts) }

func isMapType(e ast.Expr) bool {
	switch t := e.(type) {
	case *ast.MapType:
		return true
	case *ast.ParenExpr:
		return isMapType(t.X)
	}
	return false
}

func mapRangeFacts(repo string, _ *pkgFiles, f *facts) {
	var rows, registering [][]string
	for _, dir := range []string{".", "factory", "common", "check", "schema"} {
		p := parseDir(filepath.Join(repo, dir))
		// package-level knowledge: struct fields of map type, functions returning a map, named map types
		mapFields := map[string]bool{}
		mapFuncs := map[string]bool{}
		namedMaps := map[string]bool{}
		for _, file := range p.files {
			ast.Inspect(file, func(n ast.Node) bool {
				switch x := n.(type) {
				case *ast.TypeSpec:
					if isMapType(x.Type) {
						namedMaps[x.Name.Name] = true
					}
					if st, ok := x.Type.(*ast.StructType); ok {
						for _, fl := range st.Fields.List {
							if isMapType(fl.Type) {
								for _, nm := range fl.Names {
									mapFields[nm.Name] = true
								}
							}
						}
					}
				case *ast.FuncDecl:
					if x.Type.Results != nil && len(x.Type.Results.List) > 0 && isMapType(x.Type.Results.List[0].Type) {
						mapFuncs[x.Name.Name] = true
					}
				}
				return true
			})
		}
		isMapT := func(e ast.Expr) bool {
			if isMapType(e) {
				return true
			}
			if id, ok := e.(*ast.Ident); ok && namedMaps[id.Name] {
				return true
			}
			return false
		}
		names := make([]string, 0, len(p.files))
		for n := range p.files {
			names = append(names, n)
		}
		sort.Strings(names)
		for _, fname := range names {
			file := p.files[fname]
			for _, d := range file.Decls {
				fd, ok := d.(*ast.FuncDecl)
				if !ok || fd.Body == nil {
					continue
				}
				fn := fd.Name.Name
				if fd.Recv != nil && len(fd.Recv.List) > 0 {
					t := fd.Recv.List[0].Type
					if s, ok := t.(*ast.StarExpr); ok {
						t = s.X
					}
					if ix, ok := t.(*ast.IndexExpr); ok {
						t = ix.X
					}
					if id, ok := t.(*ast.Ident); ok {
						fn = id.Name + "." + fn
					}
				}
				local := map[string]bool{}
				addFields := func(fl *ast.FieldList) {
					if fl == nil {
						return
					}
					for _, x := range fl.List {
						if isMapT(x.Type) {
							for _, nm := range x.Names {
								local[nm.Name] = true
							}
						}
					}
				}
				addFields(fd.Type.Params)
				addFields(fd.Type.Results)
				var isMapExpr func(e ast.Expr) bool
				isMapExpr = func(e ast.Expr) bool {
					switch x := e.(type) {
					case *ast.Ident:
						return local[x.Name]
					case *ast.SelectorExpr:
						return mapFields[x.Sel.Name]
					case *ast.CompositeLit:
						return x.Type != nil && isMapT(x.Type)
					case *ast.CallExpr:
						if id, ok := x.Fun.(*ast.Ident); ok {
							if id.Name == "make" && len(x.Args) > 0 && isMapT(x.Args[0]) {
								return true
							}
							return mapFuncs[id.Name]
						}
						if se, ok := x.Fun.(*ast.SelectorExpr); ok {
							if pk, ok := se.X.(*ast.Ident); ok && pk.Name == "maps" && se.Sel.Name == "Clone" && len(x.Args) == 1 {
								return isMapExpr(x.Args[0])
							}
							return mapFuncs[se.Sel.Name]
						}
					case *ast.ParenExpr:
						return isMapExpr(x.X)
					case *ast.IndexExpr:
						// an element of a map of maps / slice of maps: by field or variable name of the container
						return false
					}
					return false
				}
				ast.Inspect(fd.Body, func(n ast.Node) bool {
					switch x := n.(type) {
					case *ast.AssignStmt:
						if len(x.Lhs) == len(x.Rhs) {
							for i, r := range x.Rhs {
								if id, ok := x.Lhs[i].(*ast.Ident); ok && isMapExpr(r) {
									local[id.Name] = true
								}
							}
						}
					case *ast.GenDecl:
						if x.Tok == token.VAR {
							for _, sp := range x.Specs {
								vs := sp.(*ast.ValueSpec)
								m := vs.Type != nil && isMapT(vs.Type)
								for i, nm := range vs.Names {
									if m || (i < len(vs.Values) && isMapExpr(vs.Values[i])) {
										local[nm.Name] = true
									}
								}
							}
						}
					}
					return true
				})
				ast.Inspect(fd.Body, func(n ast.Node) bool {
					switch x := n.(type) {
					case *ast.RangeStmt:
						if isMapExpr(x.X) {
							rows = append(rows, []string{dir, fname, fn, "range " + strings.Join(strings.Fields(p.src(x.X)), " ")})
							// does the body REGISTER something with the model in this order (a constraint, an objective term)? The order of
							// registration is the order in which estimates are asked and terms are summed (E46).
							ast.Inspect(x.Body, func(m ast.Node) bool {
								if c, ok := m.(*ast.CallExpr); ok {
									if se, ok := c.Fun.(*ast.SelectorExpr); ok && (se.Sel.Name == "AddConstraint" || se.Sel.Name == "NewTerm") {
										registering = append(registering, []string{dir, fname, fn, se.Sel.Name})
									}
								}
								return true
							})
						}
					case *ast.CallExpr:
						if se, ok := x.Fun.(*ast.SelectorExpr); ok {
							if pk, ok := se.X.(*ast.Ident); ok && (pk.Name == "common" || pk.Name == "maps") &&
								(se.Sel.Name == "Keys" || se.Sel.Name == "Values") {
								rows = append(rows, []string{dir, fname, fn, pk.Name + "." + se.Sel.Name + "(" + argSrc(p, x) + ")"})
							}
						}
					}
					return true
				})
			}
		}
	}
	f.recs["mapRanges"] = rows
	f.recs["mapRangesRegistering"] = registering
}

func argSrc(p *pkgFiles, c *ast.CallExpr) string {
	var parts []string
	for _, a := range c.Args {
		parts = append(parts, strings.Join(strings.Fields(p.src(a)), " "))
	}
	s := strings.Join(parts, ", ")
	if len(s) > 80 {
		s = s[:80]
	}
	return s
}

func init() { extraExtractors = append(extraExtractors, checkProbeFacts) }

// checkProbes (C18): in check/check.go, function SolutionCheck — the expression the `solution` field of the checkImpl
// literal is initialised with (the object the check plans and un-plans on).
func checkProbeFacts(repo string, _ *pkgFiles, f *facts) {
	p := parseDir(filepath.Join(repo, "check"))
	val := "not-found"
	if fd := p.funcDecl("check.go", "", "SolutionCheck"); fd != nil && fd.Body != nil {
		ast.Inspect(fd.Body, func(n ast.Node) bool {
			cl, ok := n.(*ast.CompositeLit)
			if !ok {
				return true
			}
			if id, ok := cl.Type.(*ast.Ident); !ok || id.Name != "checkImpl" {
				return true
			}
			for _, e := range cl.Elts {
				if kv, ok := e.(*ast.KeyValueExpr); ok {
					if k, ok := kv.Key.(*ast.Ident); ok && k.Name == "solution" {
						val = strings.Join(strings.Fields(p.src(kv.Value)), " ")
					}
				}
			}
			return true
		})
	}
	f.strs["checkProbes"] = val
}

func init() { extraExtractors = append(extraExtractors, noMixHintFacts) }

// noMixEstimateHints (C12): the distinct hints `noMixConstraintImpl.EstimateIsViolated` can return (second result of every
// return statement). The factory adds one no-mix constraint per item type IN MAP ORDER; that is harmless only while all of
// them answer with the same hint (the first violated constraint decides the hint the search gets).
func noMixHintFacts(repo string, _ *pkgFiles, f *facts) {
	p := parseDir(repo)
	seen := map[string]bool{}
	var hints []string
	if fd := p.funcDecl("model_constraint_no_mix.go", "noMixConstraintImpl", "EstimateIsViolated"); fd != nil && fd.Body != nil {
		ast.Inspect(fd.Body, func(n ast.Node) bool {
			if _, isLit := n.(*ast.FuncLit); isLit {
				return false
			}
			if r, ok := n.(*ast.ReturnStmt); ok && len(r.Results) == 2 {
				h := strings.Join(strings.Fields(p.src(r.Results[1])), " ")
				if !seen[h] {
					seen[h] = true
					hints = append(hints, h)
				}
			}
			return true
		})
	}
	sort.Strings(hints)
	f.lists["noMixEstimateHints"] = hints
}
