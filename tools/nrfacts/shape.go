package main

import (
	"go/ast"
	"sort"
	"strings"
)

func init() { extraExtractors = append(extraExtractors, shapeFacts) }

// shapeFacts: small structural facts that tie three model assumptions to the source.
//
//	goClosureCalls        (C12) per `go func(){…}()` statement of the package: file, function, and the names
//	                      called inside the closure — the model (NR.Rng) assumes that the goroutines of a single
//	                      run only hand data over and draw nothing from a random source;
//	budgetGrab            (C15) the statements between the worker_budget yield and the worker_grant note of the
//	                      parallel solver, printed one per entry — NR.Par.grab is a transcription of exactly these;
//	checkRegistration     (C19) in modelImpl.AddConstraint: for every addToCheckAt call, the check level, the
//	                      interface asserted by the enclosing `if`, the kind of the enclosing top-level statement
//	                      and its index — the engine model assumes every implemented check level is registered.
func shapeFacts(_ string, p *pkgFiles, f *facts) {
	// ---- goClosureCalls
	var rows [][]string
	names := make([]string, 0, len(p.files))
	for n := range p.files {
		names = append(names, n)
	}
	sort.Strings(names)
	for _, n := range names {
		for _, d := range p.files[n].Decls {
			fd, ok := d.(*ast.FuncDecl)
			if !ok || fd.Body == nil {
				continue
			}
			ast.Inspect(fd.Body, func(m ast.Node) bool {
				gs, ok := m.(*ast.GoStmt)
				if !ok {
					return true
				}
				called := map[string]bool{}
				collect := func(root ast.Node) {
					ast.Inspect(root, func(k ast.Node) bool {
						if ce, ok := k.(*ast.CallExpr); ok {
							switch fn := ce.Fun.(type) {
							case *ast.Ident:
								called[fn.Name] = true
							case *ast.SelectorExpr:
								called[fn.Sel.Name] = true
							}
						}
						return true
					})
				}
				if fl, ok := gs.Call.Fun.(*ast.FuncLit); ok {
					collect(fl.Body)
				} else {
					collect(gs.Call)
				}
				var cs []string
				for c := range called {
					cs = append(cs, c)
				}
				sort.Strings(cs)
				rows = append(rows, append([]string{n, fd.Name.Name}, cs...))
				return true
			})
		}
	}
	f.recs["goClosureCalls"] = rows

	// ---- budgetGrab
	var grab []string
	if fn := p.funcDecl("solve_solver_parallel.go", "parallelSolverImpl", "Solve"); fn != nil {
		ast.Inspect(fn.Body, func(m ast.Node) bool {
			b, ok := m.(*ast.BlockStmt)
			if !ok || grab != nil {
				return grab == nil
			}
			start, end := -1, -1
			for i, st := range b.List {
				src := p.src(st)
				if strings.HasPrefix(src, `verifYield("worker_budget")`) {
					start = i
				}
				if strings.HasPrefix(src, `verifNote("worker_grant"`) {
					end = i
				}
			}
			if start >= 0 && end > start {
				for _, st := range b.List[start+1 : end] {
					grab = append(grab, strings.Join(strings.Fields(p.src(st)), " "))
				}
				if grab == nil {
					grab = []string{}
				}
				return false
			}
			return true
		})
	}
	if grab == nil {
		grab = []string{"not-found"}
	}
	f.lists["budgetGrab"] = grab

	// ---- checkRegistration
	var reg [][]string
	if fn := p.funcDecl("model.go", "modelImpl", "AddConstraint"); fn != nil {
		for i, st := range fn.Body.List {
			kind := strings.TrimPrefix(strings.TrimPrefix(typeName(st), "*ast."), "ast.")
			ast.Inspect(st, func(m ast.Node) bool {
				ce, ok := m.(*ast.CallExpr)
				if !ok {
					return true
				}
				se, ok := ce.Fun.(*ast.SelectorExpr)
				if !ok || se.Sel.Name != "addToCheckAt" || len(ce.Args) < 1 {
					return true
				}
				asserted := ""
				if is, ok := st.(*ast.IfStmt); ok && is.Init != nil {
					if as, ok := is.Init.(*ast.AssignStmt); ok && len(as.Rhs) == 1 {
						if ta, ok := as.Rhs[0].(*ast.TypeAssertExpr); ok && ta.Type != nil {
							asserted = p.src(ta.Type)
						}
					}
					if is.Else != nil {
						kind = "IfStmt-with-else"
					}
				}
				reg = append(reg, []string{p.src(ce.Args[0]), asserted, kind, itoa(i)})
				return true
			})
		}
	}
	f.recs["checkRegistration"] = reg
}

func typeName(n ast.Node) string {
	switch n.(type) {
	case *ast.IfStmt:
		return "IfStmt"
	case *ast.SwitchStmt:
		return "SwitchStmt"
	case *ast.TypeSwitchStmt:
		return "TypeSwitchStmt"
	case *ast.ForStmt, *ast.RangeStmt:
		return "Loop"
	case *ast.AssignStmt:
		return "AssignStmt"
	case *ast.ExprStmt:
		return "ExprStmt"
	case *ast.ReturnStmt:
		return "ReturnStmt"
	}
	return "Other"
}
