package main

import (
	"go/ast"
	"sort"
	"strings"
)

func init() { extraExtractors = append(extraExtractors, copyFacts) }

// copyFacts: every field of solutionImpl and how Copy initialises it (C11).
func copyFacts(_ string, p *pkgFiles, f *facts) {
	file := p.files["solution.go"]
	var fields []string
	if file != nil {
		ast.Inspect(file, func(n ast.Node) bool {
			ts, ok := n.(*ast.TypeSpec)
			if !ok || ts.Name.Name != "solutionImpl" {
				return true
			}
			st, ok := ts.Type.(*ast.StructType)
			if !ok {
				return false
			}
			for _, fl := range st.Fields.List {
				typ := p.src(fl.Type)
				for _, nm := range fl.Names {
					fields = append(fields, nm.Name+":"+typ)
				}
			}
			return false
		})
	}
	f.lists["solutionImplFields"] = fields
	cp := p.funcDecl("solution.go", "solutionImpl", "Copy")
	how := map[string]string{}
	var intsCarved, floatsCarved []string
	chunkSizes := map[string]string{}
	carvedVar := map[string]string{} // local var -> chunk:field
	elems := map[string]string{}     // map field -> how its elements are filled
	if cp != nil {
		ast.Inspect(cp.Body, func(n ast.Node) bool {
			switch x := n.(type) {
			case *ast.AssignStmt:
				// ints := make([]int, EXPR)
				if len(x.Lhs) == 1 && len(x.Rhs) == 1 {
					if call, ok := x.Rhs[0].(*ast.CallExpr); ok {
						if id, ok := call.Fun.(*ast.Ident); ok && id.Name == "make" && len(call.Args) == 2 {
							name := p.src(x.Lhs[0])
							if name == "ints" || name == "floats" {
								chunkSizes[name] = p.src(call.Args[1])
							}
						}
					}
				}
				// X, ints := common.CopySliceFrom(ints, s.X)   |   solution.m[k], floats = common.CopySliceFrom(floats, s.m[k])
				if len(x.Lhs) == 2 && len(x.Rhs) == 1 {
					if call, ok := x.Rhs[0].(*ast.CallExpr); ok && strings.HasSuffix(p.src(call.Fun), "CopySliceFrom") && len(call.Args) == 2 {
						chunk := p.src(call.Args[0])
						src := p.src(call.Args[1])
						dst := p.src(x.Lhs[0])
						field := strings.TrimPrefix(src, "s.")
						if i := strings.Index(field, "["); i >= 0 {
							field = field[:i] + "[expr]"
						}
						if chunk == "ints" {
							intsCarved = append(intsCarved, field)
						} else if chunk == "floats" {
							floatsCarved = append(floatsCarved, field)
						}
						carvedVar[dst] = chunk + ":" + field
						if strings.HasPrefix(dst, "solution.") {
							how[strings.SplitN(strings.TrimPrefix(dst, "solution."), "[", 2)[0]] = "carved-per-expression:" + chunk
						}
					}
				}
				// solution.M[k]… = rhs : how the ELEMENTS of a map field are filled (deep: rhs is a .Copy() call)
				if len(x.Lhs) == 1 && len(x.Rhs) == 1 {
					l := p.src(x.Lhs[0])
					if strings.HasPrefix(l, "solution.") && strings.Contains(l, "[") {
						fld := strings.SplitN(strings.TrimPrefix(l, "solution."), "[", 2)[0]
						r := p.src(x.Rhs[0])
						kind := "assigned"
						switch {
						case strings.HasSuffix(r, ".Copy()"):
							kind = "deep"
						case r == "nil" || strings.HasPrefix(r, "make("):
							kind = ""
						}
						if kind != "" && !strings.Contains(elems[fld], kind) {
							elems[fld] += "+elems:" + kind
						}
					}
				}
				// solution.X = …
				if len(x.Lhs) == 1 && len(x.Rhs) == 1 {
					l := p.src(x.Lhs[0])
					if strings.HasPrefix(l, "solution.") {
						fld := strings.SplitN(strings.TrimPrefix(l, "solution."), "[", 2)[0]
						fld = strings.SplitN(fld, ".", 2)[0]
						r := p.src(x.Rhs[0])
						switch {
						case strings.HasPrefix(r, "slices.Clone("):
							how[fld] = "cloned"
						case how[fld] == "":
							how[fld] = "assigned"
						}
					}
				}
			case *ast.CompositeLit:
				if p.src(x.Type) != "solutionImpl" {
					return true
				}
				for _, el := range x.Elts {
					kv, ok := el.(*ast.KeyValueExpr)
					if !ok {
						continue
					}
					k := p.src(kv.Key)
					v := p.src(kv.Value)
					switch {
					case carvedVar[v] != "":
						how[k] = "carved:" + strings.SplitN(carvedVar[v], ":", 2)[0]
					case strings.HasPrefix(v, "make("):
						how[k] = "fresh-make"
					case strings.HasPrefix(v, "newSolutionPlanUnitCollectionBaseImpl("):
						how[k] = "fresh-collection"
					case v == "model":
						how[k] = "shared-model"
					case v == "random":
						how[k] = "fresh-random"
					default:
						how[k] = "other:" + v
					}
				}
			case *ast.ExprStmt:
				// anyCopyHelper(solution.M, s.M): a map filled by a generic helper copies the values as they are
				if call, ok := x.X.(*ast.CallExpr); ok && len(call.Args) >= 1 {
					if a0 := p.src(call.Args[0]); strings.HasPrefix(a0, "solution.") && !strings.Contains(p.src(call.Fun), "solution.") {
						fld := strings.SplitN(strings.TrimPrefix(a0, "solution."), "[", 2)[0]
						fld = strings.SplitN(fld, ".", 2)[0]
						elems[fld] += "+elems:helper(" + p.src(call.Fun) + ")"
					}
				}
				// solution.X.add(copy…)
				if call, ok := x.X.(*ast.CallExpr); ok {
					s := p.src(call.Fun)
					if strings.HasPrefix(s, "solution.") && strings.HasSuffix(s, ".add") {
						fld := strings.SplitN(strings.TrimPrefix(s, "solution."), ".", 2)[0]
						if len(call.Args) == 1 && strings.HasPrefix(p.src(call.Args[0]), "copySolutionPlanUnit(") {
							how[fld] += "+units-recreated"
						}
					}
				}
			}
			return true
		})
	}
	var rows [][]string
	names := make([]string, 0, len(fields))
	for _, fl := range fields {
		nm := strings.SplitN(fl, ":", 2)[0]
		names = append(names, nm)
		h := how[nm]
		if h == "" {
			h = "NOT-HANDLED"
		}
		if h == "fresh-make" {
			h += elems[nm]
		}
		ty := strings.SplitN(fl, ":", 2)[1]
		holds := "plain"
		if strings.Contains(ty, "Copier") {
			holds = "holds-copiers"
		}
		rows = append(rows, []string{nm, ty, h, holds})
	}
	sort.Slice(rows, func(i, j int) bool { return rows[i][0] < rows[j][0] })
	f.recs["copyFields"] = rows
	f.lists["copyIntsCarved"] = intsCarved
	f.lists["copyFloatsCarved"] = floatsCarved
	f.strs["copyIntsChunkSize"] = chunkSizes["ints"]
	f.strs["copyFloatsChunkSize"] = chunkSizes["floats"]
}
