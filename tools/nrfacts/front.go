package main

import (
	"go/ast"
	"path/filepath"
	"strings"
)

func init() { extraExtractors = append(extraExtractors, frontFacts) }

// makeSizes: for every `X = make(T, size)` assignment in fn, the source of `size` keyed by the source of X.
func (p *pkgFiles) makeSizes(fn *ast.FuncDecl) map[string]string {
	out := map[string]string{}
	if fn == nil {
		return out
	}
	ast.Inspect(fn.Body, func(n ast.Node) bool {
		as, ok := n.(*ast.AssignStmt)
		if !ok || len(as.Lhs) != 1 || len(as.Rhs) != 1 {
			return true
		}
		call, ok := as.Rhs[0].(*ast.CallExpr)
		if !ok {
			return true
		}
		if id, ok := call.Fun.(*ast.Ident); !ok || id.Name != "make" || len(call.Args) < 2 {
			return true
		}
		out[p.src(as.Lhs[0])] = p.src(call.Args[1])
		return true
	})
	return out
}

// defOf: the right-hand side of the first `name := …` in fn.
func (p *pkgFiles) defOf(fn *ast.FuncDecl, name string) string {
	res := "not-found"
	if fn == nil {
		return res
	}
	ast.Inspect(fn.Body, func(n ast.Node) bool {
		as, ok := n.(*ast.AssignStmt)
		if ok && res == "not-found" && len(as.Lhs) == 1 && p.src(as.Lhs[0]) == name && len(as.Rhs) == 1 {
			res = p.src(as.Rhs[0])
		}
		return true
	})
	return res
}

// frontFacts: sizes and index expressions of the tables behind C16's theorems.
func frontFacts(repo string, p *pkgFiles, f *facts) {
	lock := p.funcDecl("model_maximum.go", "maximumImpl", "Lock")
	sizes := p.makeSizes(lock)
	resolve := func(fn *ast.FuncDecl, s string) string {
		if d := p.defOf(fn, s); d != "not-found" {
			return d
		}
		return s
	}
	f.strs["maximumHasNoEffectSize"] = resolve(lock, sizes["l.hasNoEffect"])
	f.strs["maximumDeltasSize"] = resolve(lock, sizes["l.deltas"])
	vd := p.funcDecl("model_objective_vehicles_duration.go", "vehiclesDurationObjectiveImpl", "Lock")
	f.strs["vehiclesDurationTableSize"] = resolve(vd, p.makeSizes(vd)["t.vehicleTypesByIndex"])
	// composed per-vehicle-type expression: do the Has*Values loops skip nil entries?
	for _, name := range []string{"HasNegativeValues", "HasPositiveValues"} {
		fn := p.funcDecl("model_expression_composed.go", "composedPerVehicleTypeExpressionImpl", name)
		guard := "no-nil-guard"
		if fn != nil {
			ast.Inspect(fn.Body, func(n ast.Node) bool {
				if is, ok := n.(*ast.IfStmt); ok && strings.Contains(p.src(is.Cond), "expression == nil") {
					guard = "skips-nil"
				}
				return true
			})
		}
		f.strs["composed"+name+"Guard"] = guard
	}
	// factory package
	fp := parseDir(filepath.Join(repo, "factory"))
	av := fp.funcDecl("vehicles.go", "", "addVehicles")
	idxFirst, idxLast, guard, dgInLoop, dgArgs := "not-found", "not-found", "not-found", "not-found", "not-found"
	if av != nil {
		var walk func(n ast.Node, inLoop bool, conds []string)
		walk = func(n ast.Node, inLoop bool, conds []string) {
			switch x := n.(type) {
			case *ast.RangeStmt:
				for _, st := range x.Body.List {
					walk(st, true, conds)
				}
				return
			case *ast.IfStmt:
				c := append(append([]string{}, conds...), fp.src(x.Cond))
				for _, st := range x.Body.List {
					walk(st, inLoop, c)
				}
				if x.Else != nil {
					walk(x.Else, inLoop, conds)
				}
				return
			case *ast.BlockStmt:
				for _, st := range x.List {
					walk(st, inLoop, conds)
				}
				return
			case *ast.SwitchStmt, *ast.TypeSwitchStmt:
				return
			}
			ast.Inspect(n, func(m ast.Node) bool {
				call, ok := m.(*ast.CallExpr)
				if !ok {
					return true
				}
				fun := fp.src(call.Fun)
				switch {
				case fun == "vehicle.First().SetMeasureIndex" && len(call.Args) == 1:
					idxFirst = fp.src(call.Args[0])
					guard = strings.Join(conds, " && ")
				case fun == "vehicle.Last().SetMeasureIndex" && len(call.Args) == 1:
					idxLast = fp.src(call.Args[0])
				case fun == "NewDurationGroupsExpression" && len(call.Args) == 2:
					dgArgs = fp.src(call.Args[0]) + ", " + fp.src(call.Args[1])
					if inLoop {
						dgInLoop = "per-vehicle"
					} else {
						dgInLoop = "shared"
					}
				}
				return true
			})
		}
		walk(av.Body, false, nil)
	}
	f.strs["vehicleFirstMeasureIndex"] = idxFirst
	f.strs["vehicleLastMeasureIndex"] = idxLast
	f.strs["vehicleMeasureIndexGuard"] = guard
	f.strs["durationExpressionScope"] = dgInLoop
	f.strs["durationExpressionArgs"] = dgArgs
	nd := fp.funcDecl("duration_groups_expression.go", "", "NewDurationGroupsExpression")
	ds := "not-found"
	if nd != nil {
		ast.Inspect(nd.Body, func(n ast.Node) bool {
			kv, ok := n.(*ast.KeyValueExpr)
			if ok && fp.src(kv.Key) == "durations" {
				if call, ok := kv.Value.(*ast.CallExpr); ok && len(call.Args) == 2 {
					ds = fp.src(call.Args[1])
				}
			}
			return true
		})
	}
	f.strs["durationTableSizeExpr"] = ds
}

func init() { extraExtractors = append(extraExtractors, triangleFacts) }

// triangleFacts: does the JSON front end ever claim the triangle inequality for a travel expression?
func triangleFacts(repo string, _ *pkgFiles, f *facts) {
	fp := parseDir(filepath.Join(repo, "factory"))
	found := "never"
	for name, file := range fp.files {
		ast.Inspect(file, func(n ast.Node) bool {
			if call, ok := n.(*ast.CallExpr); ok && strings.HasSuffix(fp.src(call.Fun), "SetSatisfiesTriangleInequality") {
				found = name
			}
			return true
		})
	}
	f.strs["factorySetsTriangleInequality"] = found
}
