package main

import (
	"go/ast"
	"sort"
	"strings"
)

func init() { extraExtractors = append(extraExtractors, exactCheckFacts) }

// exactCheckFacts: for every type that has an EstimateIsViolated method (a constraint), which exact-check
// interfaces it implements, whether it updates per-stop data, and the literal result of IsTemporal.
func exactCheckFacts(_ string, p *pkgFiles, f *facts) {
	methods := map[string]map[string]*ast.FuncDecl{}
	for _, file := range p.files {
		for _, d := range file.Decls {
			fd, ok := d.(*ast.FuncDecl)
			if !ok || fd.Recv == nil || len(fd.Recv.List) == 0 {
				continue
			}
			t := fd.Recv.List[0].Type
			if s, ok := t.(*ast.StarExpr); ok {
				t = s.X
			}
			id, ok := t.(*ast.Ident)
			if !ok {
				continue
			}
			if methods[id.Name] == nil {
				methods[id.Name] = map[string]*ast.FuncDecl{}
			}
			methods[id.Name][fd.Name.Name] = fd
		}
	}
	yn := func(b bool) string {
		if b {
			return "yes"
		}
		return "no"
	}
	var rows [][]string
	for typ, ms := range methods {
		if _, ok := ms["EstimateIsViolated"]; !ok {
			continue
		}
		temporal := "absent"
		if fd, ok := ms["IsTemporal"]; ok && fd.Body != nil && len(fd.Body.List) == 1 {
			if rs, ok := fd.Body.List[0].(*ast.ReturnStmt); ok && len(rs.Results) == 1 {
				temporal = p.src(rs.Results[0])
			}
		} else if ok {
			temporal = "computed"
		}
		rows = append(rows, []string{typ, yn(ms["DoesStopHaveViolations"] != nil), yn(ms["DoesVehicleHaveViolations"] != nil),
			yn(ms["DoesSolutionHaveViolations"] != nil), yn(ms["UpdateConstraintStopData"] != nil), temporal})
	}
	sort.Slice(rows, func(i, j int) bool { return rows[i][0] < rows[j][0] })
	f.recs["exactChecks"] = rows
	// the position hints every estimate can answer with, in source order (second result of each return statement)
	var hintRows [][]string
	for typ, ms := range methods {
		fd, ok := ms["EstimateIsViolated"]
		if !ok || fd.Body == nil {
			continue
		}
		var hints []string
		ast.Inspect(fd.Body, func(n ast.Node) bool {
			if _, isLit := n.(*ast.FuncLit); isLit {
				return false
			}
			if rs, ok := n.(*ast.ReturnStmt); ok && len(rs.Results) == 2 {
				hints = append(hints, p.src(rs.Results[0])+"/"+p.src(rs.Results[1]))
			}
			return true
		})
		hintRows = append(hintRows, append([]string{typ}, hints...))
	}
	sort.Slice(hintRows, func(i, j int) bool { return hintRows[i][0] < hintRows[j][0] })
	f.recs["estimateHints"] = hintRows
	// does Latest's stop check depend on SatisfiesTriangleInequality, and does anything in the factory set it?
	uses := "no"
	if fd := methods["latestImpl"]["DoesStopHaveViolations"]; fd != nil && strings.Contains(p.src(fd.Body), "SatisfiesTriangleInequality()") {
		uses = "yes"
	}
	f.strs["latestStopCheckSkippedUnderTriangleInequality"] = uses
}
