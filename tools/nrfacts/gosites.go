package main

import (
	"go/ast"
	"go/token"
	"sort"
	"strings"
)

func init() { extraExtractors = append(extraExtractors, goSiteFacts) }

// goSiteFacts: for the parallel solver's Solve, every access to a variable of the enclosing function
// from inside a goroutine closure, with the locks held at that point (C14), and every `go`
// statement of the package with the identifiers its closure captures.
func goSiteFacts(_ string, p *pkgFiles, f *facts) {
	fn := p.funcDecl("solve_solver_parallel.go", "parallelSolverImpl", "Solve")
	shared := map[string]bool{"bestSolution": true, "solutions": true, "totalIterations": true, "iterationsLeft": true,
		"s.progression": true}
	atomicVars := map[string]bool{"totalIterations": true, "iterationsLeft": true}
	var rows [][]string
	closureID := 0
	var walkBlock func(b *ast.BlockStmt, closure string, held []string)
	var walkStmt func(st ast.Stmt, closure string, held []string) []string
	record := func(n ast.Node, closure string, held []string) {
		// writes: assignment targets
		writes := map[token.Pos]bool{}
		ast.Inspect(n, func(m ast.Node) bool {
			if _, ok := m.(*ast.FuncLit); ok {
				return false
			}
			if as, ok := m.(*ast.AssignStmt); ok {
				for _, l := range as.Lhs {
					ast.Inspect(l, func(k ast.Node) bool {
						if id, ok := k.(*ast.Ident); ok {
							writes[id.Pos()] = true
						}
						return true
					})
				}
			}
			return true
		})
		ast.Inspect(n, func(m ast.Node) bool {
			if _, ok := m.(*ast.FuncLit); ok {
				return false
			}
			name := ""
			var pos token.Pos
			switch x := m.(type) {
			case *ast.SelectorExpr:
				if p.src(x) == "s.progression" {
					name, pos = "s.progression", x.Pos()
				}
			case *ast.Ident:
				if shared[x.Name] {
					name, pos = x.Name, x.Pos()
				}
			}
			if name == "" {
				return true
			}
			kind := "r"
			if writes[pos] {
				kind = "w"
			}
			if name == "s.progression" {
				// append(s.progression, …) assigned back
				kind = "w"
			}
			if atomicVars[name] {
				kind = "atomic"
			}
			h := append([]string(nil), held...)
			sort.Strings(h)
			rows = append(rows, append([]string{closure, name, kind}, h...))
			return true
		})
	}
	lockOf := func(st ast.Stmt) (mutex string, acquire bool, ok bool) {
		es, isExpr := st.(*ast.ExprStmt)
		if !isExpr {
			return "", false, false
		}
		call, isCall := es.X.(*ast.CallExpr)
		if !isCall {
			return "", false, false
		}
		sel, isSel := call.Fun.(*ast.SelectorExpr)
		if !isSel {
			return "", false, false
		}
		switch sel.Sel.Name {
		case "Lock", "RLock":
			return p.src(sel.X), true, true
		case "Unlock", "RUnlock":
			return p.src(sel.X), false, true
		}
		return "", false, false
	}
	walkStmt = func(st ast.Stmt, closure string, held []string) []string {
		if m, acq, ok := lockOf(st); ok {
			if acq {
				return append(append([]string(nil), held...), m)
			}
			var out []string
			for _, h := range held {
				if h != m {
					out = append(out, h)
				}
			}
			return out
		}
		switch x := st.(type) {
		case *ast.GoStmt:
			if fl, ok := x.Call.Fun.(*ast.FuncLit); ok {
				closureID++
				walkBlock(fl.Body, "g"+itoa(closureID), nil)
			}
			return held
		case *ast.BlockStmt:
			walkBlock(x, closure, held)
			return held
		case *ast.IfStmt:
			if x.Init != nil {
				record(x.Init, closure, held)
			}
			record(x.Cond, closure, held)
			walkBlock(x.Body, closure, held)
			if x.Else != nil {
				walkStmt(x.Else, closure, held)
			}
			return held
		case *ast.ForStmt:
			if x.Cond != nil {
				record(x.Cond, closure, held)
			}
			walkBlock(x.Body, closure, held)
			return held
		case *ast.RangeStmt:
			record(x.X, closure, held)
			walkBlock(x.Body, closure, held)
			return held
		case *ast.SelectStmt:
			walkBlock(x.Body, closure, held)
			return held
		case *ast.CommClause:
			for _, s2 := range x.Body {
				held = walkStmt(s2, closure, held)
			}
			return held
		case *ast.LabeledStmt:
			return walkStmt(x.Stmt, closure, held)
		case *ast.DeferStmt:
			if fl, ok := x.Call.Fun.(*ast.FuncLit); ok {
				walkBlock(fl.Body, closure, held)
			} else {
				record(x.Call, closure, held)
			}
			return held
		}
		// function literals that are not goroutines (event handlers, helpers) run in whichever goroutine calls them:
		// attribute them to a closure of their own named after the variable they are bound to
		handled := false
		ast.Inspect(st, func(m ast.Node) bool {
			if fl, ok := m.(*ast.FuncLit); ok {
				handled = true
				closureID++
				walkBlock(fl.Body, "f"+itoa(closureID), nil)
				return false
			}
			return true
		})
		_ = handled
		record(st, closure, held)
		return held
	}
	walkBlock = func(b *ast.BlockStmt, closure string, held []string) {
		h := held
		for _, st := range b.List {
			h = walkStmt(st, closure, h)
		}
	}
	if fn != nil {
		walkBlock(fn.Body, "main", nil)
	}
	// keep only accesses from goroutine or callback closures, deduplicated
	seen := map[string]bool{}
	var out [][]string
	for _, r := range rows {
		if r[0] == "main" {
			continue
		}
		k := strings.Join(r, "|")
		if !seen[k] {
			seen[k] = true
			out = append(out, r)
		}
	}
	f.recs["parallelSharedAccesses"] = out
	// every go statement of the package: file:function
	var gos []string
	names := make([]string, 0, len(p.files))
	for n := range p.files {
		names = append(names, n)
	}
	sort.Strings(names)
	for _, n := range names {
		for _, d := range p.files[n].Decls {
			fd, ok := d.(*ast.FuncDecl)
			if !ok || fd.Body == nil {
				continue
			}
			c := 0
			ast.Inspect(fd.Body, func(m ast.Node) bool {
				if _, ok := m.(*ast.GoStmt); ok {
					c++
				}
				return true
			})
			if c > 0 {
				gos = append(gos, n+":"+fd.Name.Name+":"+itoa(c))
			}
		}
	}
	f.lists["goStatements"] = gos
}

func itoa(i int) string {
	if i == 0 {
		return "0"
	}
	s := ""
	for i > 0 {
		s = string(rune('0'+i%10)) + s
		i /= 10
	}
	return s
}
