module verif/nrfacts

go 1.21
