#!/usr/bin/env python3
"""saveseed.py <id> <property> <worktree> <demo-dir> <regex> <needs> <caught>: keep a confirmed seeded change under /verif/seeded/<id>/."""
import json, os, shutil, sys
sid, prop, wt, ddir, rx, need, caught = sys.argv[1:8]
ROUND = os.environ.get("SEED_ROUND", "2")
HOW = os.environ.get("SEED_HOW", "tools/seed2.sh %s %s '%s' <checks>: seedconfirm, then git -C /repo apply patch.diff, tools/check <ids>, git -C /repo checkout -- .")
d = os.path.join("/verif/seeded", sid)
os.makedirs(d, exist_ok=True)
shutil.copy(os.path.join(wt, "seed_out", "patch.diff"), d)
shutil.copy(os.path.join(wt, "seed_out", "seed_demo_test.go"), os.path.join(d, "demo_test.go"))
if os.path.exists(os.path.join(wt, "seed_out", "notes.md")):
    shutil.copy(os.path.join(wt, "seed_out", "notes.md"), d)
json.dump({
    "id": sid, "breaks_property": prop, "needs_to_manifest": need,
    "produced_by": "fresh sub-agent (round " + ROUND + ") given only the property text and its own scratch worktree (%s)" % wt,
    "demo": "demo_test.go goes into %s of the repository; go test -mod=mod -vet=off -count=1 -run '%s' ." % (ddir, rx),
    "confirmed": "by me in the scratch worktree with tools/seedconfirm.sh: demo passes on the untouched tree, fails with patch.diff applied, "
                 "pinned suite (217 tests) passes with it",
    "what_i_ran": HOW % (wt, ddir, rx),
    "caught_by": caught}, open(os.path.join(d, "meta.json"), "w"), indent=1)
print("saved", d)
