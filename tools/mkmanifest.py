#!/usr/bin/env python3
"""Regenerate /verif/MANIFEST.json from tools/props.py (claimed checks) and properties.jsonl."""
import json, os, sys
VERIF = os.path.dirname(os.path.dirname(os.path.abspath(__file__)))
sys.path.insert(0, os.path.join(VERIF, "tools"))
from props import PROPS, NOT_APPLICABLE  # noqa

props = [json.loads(l) for l in open(os.path.join(VERIF, "properties.jsonl"))]
hooks = [l.strip() for l in open(os.path.join(VERIF, "tools", "hook_commits.txt")) if l.strip()]
checks = []
for p in props:
    pid = p["id"]
    cfg = PROPS.get(pid)
    if not cfg or "claim" not in cfg:
        continue
    cl = cfg["claim"]
    checks.append({
        "property_id": pid,
        "quick_cmd": f"./tools/check {pid} --tier quick",
        "thorough_cmd": f"./tools/check {pid} --tier thorough",
        "evidence_file": f"/verif/evidence/{pid}.json",
        "replay_cmd_template": f"./tools/check {pid} --replay {{path}}",
        "engine": "lean-model",
        "level_claimed": {"category": cfg.get("level", "proof"), "text": cl["text"], "design_ref": cl.get("design_ref", "DESIGN.md §5")},
        "level_note": cl["note"],
        "technique": cl["technique"],
    })
claimed = {c["property_id"] for c in checks}
na = [{"property_id": p["id"], "reason": NOT_APPLICABLE.get(p["id"], "not yet claimed: machinery for this property is still under construction")}
      for p in props if p["id"] not in claimed]
m = {
    "version": 1,
    "setup_cmd": "cd /verif && ./tools/setup",
    "hooks": {"guard": "verif",
              "enable": "go build -tags verif (the harness module /verif/harness replaces github.com/nextmv-io/nextroute with /repo)",
              "baseline_off_cmd": "/verif/tools/baseline.sh /repo",
              "source_commits": hooks, "add_only": True},
    "engines": [
        {"name": "lean-model", "path": "/verif/lean", "serves_properties": sorted(claimed),
         "kind_free_text": "Lean 4 executable model + theorems (lake project NR; compiled core-only driver nrdriver replays the harness's operation lines)"},
        {"name": "harness", "path": "/verif/harness", "serves_properties": sorted(claimed),
         "kind_free_text": "Go differential harness driving /repo in-process (tag verif), one PRNG seeded by VERIF_SEED"},
        {"name": "nrfacts", "path": "/verif/tools/nrfacts", "serves_properties": sorted(p for p in claimed if PROPS[p].get("facts")),
         "kind_free_text": "go/parser fact extractor regenerating NR/Facts/Generated.lean; fact theorems are recompiled against it on every run"},
    ],
    "checks": checks,
    "notes": "Every check = Lean proof audit (lake build, #print axioms, forbidden-token scan) + regenerated source facts + differential correspondence between the Go code and the compiled Lean model; see DESIGN.md §4.6 for the classification of failures.",
    "not_applicable": na,
}
json.dump(m, open(os.path.join(VERIF, "MANIFEST.json"), "w"), indent=1)
print("claimed:", sorted(claimed))
