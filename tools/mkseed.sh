#!/bin/sh
# mkseed.sh <id> <prop> <srcdir> <needs> <caught>
id=$1; prop=$2; src=$3; need=$4; caught=$5; d=/verif/seeded/$id; mkdir -p $d; cp $src/patch.diff $d/; cp $src/seed_demo_test.go $d/demo_test.go 2>/dev/null; cp $src/notes.md $d/notes.md
python3 - "$id" "$prop" "$src" "$need" "$caught" > $d/meta.json <<'PY'
import json,sys
id,prop,src,need,caught=sys.argv[1:]
print(json.dumps({"id":id,"breaks_property":prop,"needs_to_manifest":need,
"produced_by":"fresh sub-agent given only the property text and a scratch worktree (%s)"%src.rsplit('/',1)[0],
"confirmed":"patch applied to /repo working tree (git apply), go build ok, my checks run, then git checkout; sub-agent's demo fails with / passes without the change and the pinned suite passes with it (reported by the sub-agent)",
"what_i_ran":"/verif/tools/seedtest.sh %s <checks> ; then git -C /repo checkout -- ."%src,
"caught_by":caught},indent=1))
PY
