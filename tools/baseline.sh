#!/bin/sh
# Runs the pinned suite of a nextroute tree (default /repo) with the verif tag OFF; prints pass/fail counts
# (expected: 217 pass; the 48 Python-backed TestPythonSolveGolden cases fail in the baseline as well).
T=${1:-/repo}
export GOFLAGS=-mod=mod GOPROXY=off GOSUMDB=off GOTOOLCHAIN=local
cd "$T" && go test -mod=mod -json -vet=off -count=1 -timeout 25m ./... 2>&1 | python3 -c "
import sys,json
p=f=0;bad=[]
for l in sys.stdin:
    try: e=json.loads(l)
    except Exception: continue
    if e.get('Test') and e.get('Action')=='pass': p+=1
    if e.get('Test') and e.get('Action')=='fail':
        f+=1
        if 'TestPythonSolveGolden' not in e['Test']: bad.append(e['Package']+'::'+e['Test'])
print('pass',p,'fail',f,'non-python-failures',bad)
sys.exit(0 if p>=217 and not bad else 1)"
