#!/bin/sh
# sweep.sh <tier> <seeds...>: run every claimed check for several seeds; print one line per run.
# Meant for `vp run -- ./tools/sweep.sh quick 2 3 4 5` (unchanged-tree sweeps before claiming).
TIER=$1; shift
cd "$(dirname "$0")/.."
./tools/setup >/dev/null 2>&1
for seed in "$@"; do
  for id in $(python3 -c "import json;print(' '.join(c['property_id'] for c in json.load(open('MANIFEST.json'))['checks']))"); do
    out=$(VERIF_SEED=$seed ./tools/check $id --tier $TIER 2>&1)
    rc=$?
    echo "seed=$seed $id rc=$rc $(echo "$out" | tail -1)"
    echo "$out" | grep "^VIOLATION" | head -3
    echo "$out" | grep "^   \|broken" | head -4
  done
done
