"""Per-property configuration of tools/check: which Lean property files carry the theorems,
which regenerated fact theorems are re-checked, which harness streams are run and how their
answers are compared with the Lean model's."""

TB_COMMON = ("Trusted: Lean 4.33 kernel; axioms propext, Classical.choice, Quot.sound only (audited per theorem on every "
             "run); the hand-written models under /verif/lean/NR are tied to the Go by differential streams and by the "
             "Spec oracle evaluated on the real code's own observations, not verified against it; the Go harness and "
             "its independent JSON-to-instance decoder; float64 rounding is outside the model (integer-valued instances "
             "make engine arithmetic exact; time-dependent travel compared with relative tolerance 1e-8).")

SOL = {"name": "sol", "corpus": True, "timeout": 3000}
HIST = {"name": "hist", "corpus": True}
HISTUC = {"name": "histuc", "corpus": True}
RC = {"name": "rc", "corpus": True}
HISTW = {"name": "histw", "corpus": True}
INIT = {"name": "init", "corpus": True}
APIBM = {"name": "apibm", "corpus": True}
# a second, independently seeded pass of the waiting-biased histories (rare estimate shapes are a matter of density)
HISTW2 = {"name": "histw", "label": "gen2", "env": {"VERIF_SEED_ADD": "1"}}
HIST2 = {"name": "hist", "label": "gen2", "env": {"VERIF_SEED_ADD": "1"}}

ENGINE_TXT = ("Engine theorems (NR.Props.EngineThms, generic in the cached values, the step function and the exact "
              "checks): a completing propagation pass establishes cache = forward propagation and every check on what "
              "it walked; every operation (insert / remove / vehicle un-plan = replace a route suffix, propagate, roll "
              "back on violation) preserves the solution invariant over arbitrary histories and any number of "
              "vehicles; a rejected operation leaves routes, cached values of all planned stops and the score unchanged. "
              "Array level (NR.Props.LinksThms over NR.Links, a transcription of attach / detach and of the move's attach "
              "loop): the next / previous / in-vehicle arrays always represent the route lists, a move's attach produces "
              "exactly the route the hypothetical-route iterator yields, and the rollback of a rejected Execute restores "
              "the arrays exactly; tied by the `links` lines (arrays before/after every Execute and un-plan). "
              "Concrete instance (NR.Props.SchedThms over NR.Sched, a transcription of what isFeasible caches per stop and of "
              "the exact checks the factory registers): walking a route with it yields Spec.schedule / levels / distances, "
              "its exact checks hold iff Spec.temporalOK = none and the capacity and distance clauses of Spec.staticOK hold, "
              "so every state reached by any admissible history has cached times = Spec.schedule, levels = Spec.levels, "
              "Spec.temporalOK = none, no capacity / distance clause, and score = Spec.objective (all terms but the unplanned "
              "penalty) — the engine theorems in the vocabulary of the specification that judges the real code; tied by the "
              "`eng` lines (every Execute / un-plan / vehicle un-plan of every history without user constraints replayed by "
              "applyOp over this instance: result and every cached value of the vehicle compared). ")

PROPS = {
    "C01": {
        "claim": {
            "text": ENGINE_TXT + "C01: projection to the exact checks (capacity levels, distance) for every reachable "
                    "state; maximum stops and compatibility have no exact check (regenerated fact) and are proved from "
                    "the estimate gate (exact estimate formulas) + closure under removals. No-mix (NR.Props.C01M over NR.Mix, a transcription of the updater "
                    "and of the estimate, tied by the exact `mix st` / `mix est` lines): a move the estimate admits produces a route "
                    "on which the updater succeeds at every stop, the unit's own running quantity never goes negative, removing any "
                    "unit from such a route leaves such a route (un-plan cannot fail), and Spec.mixOK accepts exactly the routes on "
                    "which every per-resource updater succeeds; counterexample theorems for the estimate as given (E29, E30, E31) and "
                    "for empty item names (E32), all reproduced on the code and repaired there. The oracle NR.Spec.staticOK, computed from the "
                    "input-derived instance alone, judges every solution delivered by the solver and every state of "
                    "random API histories.",
            "note": TB_COMMON + " Translation of JSON quantities/capacities/limits into expressions is tied (oracle uses "
                    "its own decoder), not proved.",
            "technique": "Lean 4 proof (invariant by induction over operation histories) + Spec oracle on the real code's observations",
            "design_ref": "DESIGN.md §5 C01, §3.6",
        },
        "lean_props": ["C01", "EngineThms", "SchedThms", "C01M"],
        "facts": ["CheckFacts"],
        "streams": [SOL, HIST, HISTW],
    },
    "C02": {
        "claim": {
            "text": ENGINE_TXT + "C02: the temporal checks (window close, vehicle end / max duration, stop and vehicle "
                    "wait limits) are exact checks run by every pass, un-planning included, so they hold on every "
                    "reachable state with NO assumption on the travel matrix; an infeasible removal is rolled back. "
                    "Oracle NR.Spec.temporalOK recomputes every schedule from the input (matrix and time-dependent "
                    "travel via the C17 model) and judges every observation of the real code.",
            "note": TB_COMMON + " API models that claim the triangle inequality skip the latest-start exact check; "
                    "JSON-built models never set it (that is what is claimed).",
            "technique": "Lean 4 proof (engine invariant, AllOk clause) + Spec oracle on the real code's observations",
            "design_ref": "DESIGN.md §5 C02",
        },
        "lean_props": ["C02", "C02W", "EngineThms", "SchedThms"],
        "facts": ["CheckFacts"],
        "streams": [SOL, HIST, HISTW, RC],
    },
    "C03": {
        "claim": {
            "text": "Theorems: routes stay duplicate-free and pairwise disjoint over any admissible history; every "
                    "placement the move generator yields keeps direct pairs adjacent (complete characterisation of "
                    "`generate`); on the sub-alphabet of root operations a plan-all unit is never half planned. The "
                    "full statement is FALSE of the code: machine-checked counterexample for un-planning a member "
                    "(finding E2, replayed on the real code; not repairable without editing goldens). The single-stop "
                    "search path had no direct-pair guard (E3: repaired). Oracle NR.Spec.unitsOK judges every observation.",
            "note": TB_COMMON + " The DAG order test IsAllowed and the sequence sampler are tied by the harness's own "
                    "permutation oracle, not modelled in Lean.",
            "technique": "Lean 4 proof (partial + counterexample theorems) + Spec oracle on the real code's observations",
            "design_ref": "DESIGN.md §5 C03",
        },
        "lean_props": ["C03", "C03I", "C08", "C10", "EngineThms", "LinksThms", "C16U"],
        "streams": [SOL, HIST, HISTUC, INIT, {"name": "units", "corpus": True}],
    },
    "C04": {
        "claim": {
            "text": ENGINE_TXT + "C04: cached value of every planned stop = forward propagation of the current route "
                    "(history independence is a corollary: the observable solution is a function of the routes). "
                    "That the propagation step IS the input's semantics is the tie: NR.Spec.schedule, computed from the "
                    "harness's own decoding of the JSON (matrix in force at departure via the C17 model, waiting, "
                    "duration x the serving vehicle's multiplier, duration-group surcharge), is compared with the "
                    "code's reported travel/arrival/start/end/cumulative travel on every observation. Found and "
                    "repaired: compounding multipliers (E1), wrong matrix rows for vehicles without alternates (E14).",
            "note": TB_COMMON,
            "technique": "Lean 4 proof (cache consistency invariant over histories) + independent schedule oracle on the real code's observations",
            "design_ref": "DESIGN.md §5 C04",
        },
        "lean_props": ["C04", "EngineThms", "LinksThms", "SchedThms"],
        "streams": [SOL, HIST, HISTUC],
    },
    "C05": {
        "claim": {
            "text": ENGINE_TXT + "C05: score = objective of the current routes after any history (refreshed by every "
                    "completing pass from consistent caches). The unplanned term follows the unplanned COLLECTION: "
                    "proved right on the sub-alphabet where the bookkeeping invariant holds (C08), FALSE in general "
                    "(counterexample theorems; findings E4 one-of parents, E2 member un-plan, stale score after a "
                    "rejected member un-plan). NR.Spec.objective recomputes all eight terms from routes and input and "
                    "is compared with the code's terms and total on every observation.",
            "note": TB_COMMON + " The lateness default factor 1.0 and the target-time expression shared by earliness and "
                    "lateness are mirrored in the oracle as the code defines them.",
            "technique": "Lean 4 proof (partial + counterexample) + independent objective oracle on the real code's observations",
            "design_ref": "DESIGN.md §5 C05",
        },
        "lean_props": ["C05", "C08", "EngineThms", "SchedThms"],
        "streams": [SOL, HIST, HISTUC],
    },
    "C06": {
        "claim": {
            "text": "Pure list theorems over score sequences: for EVERY list of scores received by the aggregator (hence "
                    "every merge of the runs' outputs, every goroutine schedule) the delivered scores are strictly "
                    "decreasing, all below the first, the first is the minimum of the start solutions, the last is the "
                    "minimum of everything received; single solver: strictly decreasing for any operator/reset "
                    "sequence, last delivered = best found exactly when no operator resets to a strictly better "
                    "solution (counterexample otherwise). The comparison operators are extracted from the source on "
                    "every run and the theorems are re-proved for them.",
            "note": TB_COMMON + " The aggregator's receive order is observed through the verif hook agg_score.",
            "technique": "Lean 4 proof (list induction) over facts regenerated from the source + trace correspondence",
            "design_ref": "DESIGN.md §5 C06",
        },
        "lean_props": ["C06"],
        "facts": ["SolverFacts"],
        "streams": [SOL, {"name": "ssolve", "corpus": True}],
    },
    "C07": {
        "claim": {
            "text": ENGINE_TXT + "C07: all-or-nothing for stops-units for ARBITRARY exact checks; the rollback pass "
                    "always completes. Units of units (bookkeeping state machine NR.Coll): rejected operations of the "
                    "sub-alphabet leave the collections unchanged as sets; group moves AND group un-plans roll back last-in-"
                    "first-out and the rollback always goes through, for every model, state and member list (NR.Group, "
                    "C07G; counterexample theorem for a rollback in execution order). The un-plan of a plan-all unit as "
                    "GIVEN went on after a rejected member and returned true (counterexample theorem kept on "
                    "Coll.unplanUnitsGiven); repaired in /repo (E16), the model follows the repaired code. What stays "
                    "false: UnPlan on a MEMBER tears its group (E2, listed). Decided on the real code by snapshot comparison before/after every rejected call "
                    "in random histories, with and without an optimistic user constraint (rollback branches run "
                    "thousands of times). Repaired: SolutionVehicle.Unplan reported success after restoring.",
            "note": TB_COMMON + " Order inside collections and inside an unplanned unit's stop list is not part of "
                    "'exactly as they were' (canonicalised).",
            "technique": "Lean 4 proof (rollback theorem, partial + counterexample) + before/after snapshot differential on the real code",
            "design_ref": "DESIGN.md §5 C07",
        },
        "lean_props": ["C07", "C08", "EngineThms", "LinksThms", "C01M", "C07G"],
        "streams": [HIST, HISTUC],
    },
    "C08": {
        "claim": {
            "text": "Bookkeeping state machine NR.Coll (every add/remove at the call site the Go has it; outcomes of "
                    "feasibility checks are arbitrary input bits): invariant proved for all unit forests and all "
                    "histories over the sub-alphabet of root operations; full statement FALSE: counterexample theorems "
                    "for one-of units (E4, pinned by the alternates golden) and member un-plan (E2). Repaired: vehicle "
                    "un-plan filed members on their own (E15). Oracle NR.Spec.bookkeepingOK judges the collections of "
                    "the real solution after every operation and on every delivered solution.",
            "note": TB_COMMON,
            "technique": "Lean 4 proof (state-machine invariant, partial + counterexample theorems) + Spec oracle on the real code's observations",
            "design_ref": "DESIGN.md §5 C08",
        },
        "lean_props": ["C08", "C03I"],
        "streams": [SOL, HIST, HISTUC, INIT],
    },
    "C09": {
        "claim": {
            "text": "Per built-in constraint, estimate vs exact check under the engine invariant: proved sound AND complete "
                    "for Maximum (every capacity resource and the distance limit) in all three regimes of "
                    "maximumImpl.EstimateIsViolated, exact for MaximumStops and Attributes (which have no exact "
                    "check), and EXACT for the two waiting-time estimates (maximumWaitStop, maximumWaitVehicle: walk "
                    "with early exit, for arbitrary windows, travel matrices and duration groups, NR.WaitEst) — the "
                    "estimates as found are kept with machine-checked counterexamples (E8, E23, both repaired in /repo). "
                    "Model and code are compared line by line on every move of every history (est max|waitv|waits). "
                    "Latest (walks the whole route, no early exit) and NoMix are NOT modelled (partial): they are decided "
                    "by the property's own observable on the real code — every move the engine calls executable (best "
                    "moves and explicitly constructed moves, in random histories on generated JSON models incl. tight "
                    "windows, wait limits, non-metric and time-dependent matrices, arrival-neutral detours) is executed "
                    "and must succeed; check.SolutionCheck's moves_failed is read too.",
            "note": TB_COMMON + " The estimates are stated over the list of values along the new route; that the "
                    "hypothetical-route iterator (solutionStopGenerator) yields exactly that route is itself a theorem "
                    "(NR.StopGen, all four start/end modes, any number of inserted stops) tied by the sgen lines.",
            "technique": "Lean 4 proof (estimate/exact equivalence for Maximum, MaximumStops, Attributes) + executable-then-Execute differential on the real code",
            "design_ref": "DESIGN.md §5 C09",
        },
        "lean_props": ["C09", "C09W", "C09G", "C01", "C01M"],
        "facts": ["CheckFacts"],
        "streams": [HIST, HISTW, HISTW2],
    },
    "C10": {
        "claim": {
            "text": "Theorems: combineAscending enumerates exactly the order-preserving placements, once each; generate "
                    "enumerates exactly those that split no direct pair, once each, and equals combineAscending without "
                    "direct pairs; the stop-order generator (NR.Seq, sequenceGenerator) produces exactly the orders the "
                    "unit's DAG allows (direct arcs adjacent), each once, for ANY random order of its levels, and the "
                    "sample is a prefix of them — the generator as found skipped valid orders (E24, counterexample "
                    "theorem, repaired in /repo); folding takeBestInPlace over any candidate list returns an executable "
                    "candidate iff one exists and its value is the minimum over the executable ones, for ANY tie-break "
                    "stream. Ties: SequenceGeneratorChannel vs NR.Seq.orders on every multi-stop unit (seq lines), the "
                    "placement generator vs NR.Gen (gen lines), and BestMove vs the minimum over NewMoveStops on every "
                    "enumerated placement (the property's oracle) for every stops-unit of up to 3 stops in random histories.",
            "note": TB_COMMON + " Scope: plan units made of stops; units of units are searched greedily by construction.",
            "technique": "Lean 4 proof (enumeration completeness, min-fold) + exhaustive-enumeration differential on the real code",
            "design_ref": "DESIGN.md §5 C10",
        },
        "lean_props": ["C10", "C10S", "C10D"],
        "streams": [HIST, HIST2, APIBM],
    },
    "C11": {
        "claim": {
            "text": "Address level: slices carved one after the other from a fresh chunk are pairwise disjoint and lie "
                    "inside it (for any lengths); the int and float chunks fit the carved field lists exactly for all "
                    "numbers of stops, vehicles and expressions; every field of solutionImpl gets an independent value "
                    "in Copy. The field list, the treatment of each field, the carved lists and the chunk size "
                    "expressions are extracted from the source on every run and the theorems re-instantiated: a field "
                    "added and forgotten, a shared backing array or a wrong chunk size breaks them. Value level and "
                    "independence under later operations are decided on the real code: snapshots of original and copy "
                    "right after Copy and after every later operation on either side in random histories (nested "
                    "units included), and concurrent mutation of both under the Go race detector.",
            "note": TB_COMMON + " Carved slices have spare capacity into the next field; the model records that no "
                    "operation appends to them. The race detector validates the model and finds replays; it is not the decision procedure.",
            "technique": "Lean 4 proof (disjointness of carved ranges over regenerated field tables) + snapshot differential and race-detector runs on the real code",
            "design_ref": "DESIGN.md §5 C11",
        },
        "lean_props": ["C11"],
        "facts": ["CopyFacts"],
        "streams": [HIST, HISTUC, {"name": "copyrace", "race": True, "model": False}],
    },
    "C12": {
        "claim": {
            "text": "Random-stream model: with two agents drawing from one stream the interleaving is a free variable "
                    "(counterexample theorem: same stream, two schedules, different tie-break draws); the repaired code "
                    "generates all stop orders before handing them over, and then each agent's draws are a function of "
                    "the stream alone (theorem). Decided on the real code by repetition: the same generated input "
                    "(integer matrices collapsed to few distinct values → cost ties; units with several allowed "
                    "orders), seed and options, one parallel run, model rebuilt for every repetition, with and "
                    "without schedule perturbation through the verif hooks: the sequence of delivered solutions and "
                    "the final output must be identical — in three modes: the single solver read by a plain (optionally slow) "
                    "consumer, the parallel solver with a restart operator that never fires, the parallel solver as shipped. "
                    "Found and repaired: E5 (shared random source), E19 (map-ordered filing of initial units), E18 "
                    "(collector lag). Listed: E25 (as shipped, the collector's copy and the solver's restart copy draw "
                    "from the same best solution's random source in an order decided by the scheduler). Fact theorems "
                    "(regenerated go-closure call table): the helper goroutines of a run call nothing that draws; every "
                    "place where the iteration order of a Go map could reach a result (regenerated list of map ranges in "
                    "library and factory) is on a reviewed list (MapOrderFacts); no loop over a map registers constraints or "
                    "objective terms with the model except the one adding the no-mix constraints, whose hints are uniform "
                    "(MapOrderFacts.no_registration_in_map_order / no_mix_hints_are_uniform; E46: the capacity constraints "
                    "used to be added in map order — repaired); every Maximum answers with a uniform hint per regime (CheckFacts). The closest-stop lists the island un-plan operators walk come out of a k-d tree "
                    "whose visiting order depends on a process-wide random source (E43, repaired): NR.Closest models the "
                    "repaired query, proved independent of the visiting order and equal to the first n of all other stops in "
                    "(distance, index) order (C12C), tied to the code by the `closest` stream (every query on freshly built "
                    "objects, layouts with exact ties).",
            "note": TB_COMMON + " math/rand is an abstract stream; 'any machine load' is approximated by injected delays.",
            "technique": "Lean 4 proof (stream-splitting theorem + counterexample) + repetition differential under schedule perturbation",
            "design_ref": "DESIGN.md §5 C12",
        },
        "lean_props": ["C12", "C12C"],
        "facts": ["ShapeFacts", "CheckFacts", "MapOrderFacts"],
        "streams": [{"name": "repro", "corpus": True, "model": False}, {"name": "closest", "corpus": True}],
    },
    "C13": {
        "claim": {
            "text": "Protocol model NR.Par with each run an uninterpreted deterministic function of (start solution, "
                    "grant): FALSE for two or more parallel runs — machine-checked counterexamples for arrival-order "
                    "budget slices and for a run copying the shared best before/after another run of the same cycle "
                    "reported; PROVED: the collector's final best of a cycle is independent of the arrival order of "
                    "the messages, the total grant is independent of the arrival order at the counter, and in every reachable state of the "
                    "dispatcher/worker transition system every running worker belongs to the cycle being spawned (cycles never "
                    "overlap; tied to the code by the worker_copied / worker_done hook events of every detsched case). Decided on the "
                    "real code by forced schedules (delays injected through verifYield at the collector's update, "
                    "worker start, budget grab, send): the final solution of deterministic mode must be the same "
                    "under every schedule. The cross-cycle lag was repaired (E18); schedule dependence with two or "
                    "more runs is a listed finding (a repair needs the dispatcher to assign start solutions and budgets).",
            "note": TB_COMMON + " Forced schedules are a search for a replay, not the decision procedure.",
            "technique": "Lean 4 proof (counterexample + partial theorems over the protocol model) + forced-schedule differential",
            "design_ref": "DESIGN.md §5 C13",
        },
        "lean_props": ["C13", "C15"],
        "streams": [{"name": "detsched", "corpus": True, "model": False, "timeout": 3000}],
    },
    "C14": {
        "claim": {
            "text": "Lean decides the lockset discipline of the parallel solver over the access table regenerated "
                    "from the source on every run (every conflicting pair of accesses to bestSolution / solutions / "
                    "progression / the counters from different goroutines shares a mutex or is atomic; every go "
                    "statement of the package is accounted for). PARTIAL: accesses outside the protocol are covered by "
                    "C11 and by race-detector runs of the parallel and single solver over generated feature mixes "
                    "(each activates different lazily initialised caches) and of concurrently mutated copies; a report is "
                    "a concrete failing schedule. Found and repaired: E5, E6 (both), the cached default time value.",
            "note": TB_COMMON + " The step from lockset discipline to happens-before ordering is the classical argument, "
                    "not re-proved; the Go race detector validates the table and finds replays.",
            "technique": "Lean 4 decision of the lockset discipline over regenerated access facts + race-detector differential",
            "design_ref": "DESIGN.md §5 C14",
        },
        "lean_props": ["C14"],
        "facts": ["ParFacts"],
        "streams": [{"name": "parrace", "race": True, "model": False}, {"name": "copyrace", "race": True, "model": False},
                    {"name": "parracefirst", "race": True, "model": False}],
    },
    "C15": {
        "claim": {
            "text": "Budget: for EVERY arrival order at the shared counter each run is granted at most its request and the "
                    "grants sum to exactly min(budget, total demand) (theorem; the compiled model recomputes the total "
                    "from the requests observed and it is compared with the grants read through the hook). Shutdown: "
                    "transition system of dispatcher / workers / collector after the context is done: invariant "
                    "preserved, a measure strictly decreases on every step, no deadlock while the consumer drains — so "
                    "the result channel is closed after finitely many steps. Decided on the real code over option "
                    "combinations (iterations 0/1/few/unlimited, duration 0/short, runs below/at/above the CPU count, "
                    "0..3 start solutions, plain/cancelled/deadline contexts): Iterated events vs budget, channel "
                    "closed, no panic. 'Shortly after' in wall-clock terms is measured, not proved (partial). "
                    "Repaired: E11 (panic on a context without run.Start).",
            "note": TB_COMMON + " Wall-clock time, the Go scheduler and the memory model are abstracted by the transition system.",
            "technique": "Lean 4 proof (budget arithmetic for all arrival orders; measure/invariant/progress of the shutdown transition system) + option-combination differential",
            "design_ref": "DESIGN.md §5 C15",
        },
        "lean_props": ["C15"],
        "facts": ["ShapeFacts"],
        "streams": [{"name": "budget", "corpus": True}],
    },
    "C16": {
        "claim": {
            "text": "Index-arithmetic theorems for every table behind the crashes found (matrix layout incl. vehicles "
                    "without alternates, per-vehicle duration tables, per-plan-unit tables of Maximum, per-vehicle table "
                    "of the vehicles-duration objective): every index that can occur is in range for ALL numbers of "
                    "stops, alternates, copies, vehicles, types and units; the size and index EXPRESSIONS are extracted "
                    "from the source on every run and the theorems re-instantiated (a reverted repair breaks them). "
                    "PARTIAL by nature: decoding, validation and the rest of the Go runtime are decided by the crash "
                    "differential — valid generated inputs, mutated (malformed) JSON and API-built models (shared "
                    "vehicle types, limits on a subset of types, plain/cancelled/deadline contexts), each built, "
                    "given a first solution and solved in an isolated child process; a panic or an engine error is a "
                    "violation. Found and repaired: E7, E11, E12, E13.",
            "note": TB_COMMON + " A panic inside a goroutine of the library kills the child process; the parent attributes it to the running case.",
            "technique": "Lean 4 proof (index arithmetic over regenerated size expressions) + crash differential on the real code",
            "design_ref": "DESIGN.md §5 C16",
        },
        "lean_props": ["C16", "C01M", "C16U"],
        "facts": ["FrontFacts"],
        "streams": [{"name": "crash", "corpus": True, "model": False}, HIST, HISTUC, RC, APIBM, {"name": "units", "corpus": True}],
        "also": [],
    },
    "C17": {
        "claim": {
            "text": "Lean 4 theorems over every rational departure time, every chain SetExpression can build and every "
                    "non-negative duration table: ValueAtValue is total, non-negative, first-in-first-out, equals the "
                    "element's duration for a trip that fits inside one element, equals the default after the last "
                    "frame / without frames; SetExpression (as repaired, E10) only accepts intervals that keep the chain "
                    "sorted, contiguous and alternating. The model is tied to the Go by a differential stream "
                    "(API and JSON routes, dense grids and every frame boundary) replayed through the compiled model.",
            "note": "Trusted: Lean kernel; axioms propext, Classical.choice, Quot.sound; the hand-written model "
                    "NR.TimeDep (tied, not verified); float64 rounding is outside the model (tolerance 1e-9).",
            "technique": "Lean 4 proof (induction over the element chain, ordered-field reasoning over Rat) + differential correspondence check",
            "design_ref": "DESIGN.md §5 C17, §3.5",
        },
        "lean_props": ["C17"],
        "streams": [{"name": "td", "tol": 1e-9}],
        "trusted": ["float64 rounding in ValueAtValue is outside the model: code and model are compared "
                    "with relative tolerance 1e-9, property clauses on the code's values with 1e-6"],
        "assumptions": ["frames of zero length are excluded (factory/validate.go rejects them)",
                        "expressions are constants per (vehicle type, from, to); the theorems fix one triple"],
    },
    "C18": {
        "claim": {
            "text": ENGINE_TXT + "C18: any probe sequence (execute a best move, un-plan it again, ...) that ends with "
                    "the routes it started from leaves the observable solution exactly as it was; a rejected probe "
                    "changes nothing. The hypothesis is exact: when the un-plan of a probed group member is rejected the "
                    "check leaves the group half planned (finding E16, counterexample theorem, replayed on the real "
                    "code). Decided on the real code by snapshot comparison before/after check.SolutionCheck at every "
                    "verbosity inside random histories, and by re-planning every stops-unit the check reports plannable. Since the repair E39 the check probes a COPY of the solution (fact theorem ShapeFacts.check_probes_a_copy over the regenerated source fact), so never-alters rests on C11; the before/after differential still runs around every check.",
            "note": TB_COMMON + " 'Reports truthfully' is re-checked only for plan units of stops (units of units are "
                    "searched greedily in a random member order, a second search may legitimately fail).",
            "technique": "Lean 4 proof (history independence corollary) + before/after snapshot differential on the real code",
            "design_ref": "DESIGN.md §5 C18",
        },
        "lean_props": ["C18", "C07", "EngineThms"],
        "facts": ["ShapeFacts"],
        "streams": [HIST, HISTUC],
    },
    "C19": {
        "claim": {
            "text": ENGINE_TXT + "C19: instantiate the exact check with 'built-in checks AND an arbitrary user predicate "
                    "of the route prefix' — the estimate does not occur in the statements, so it cannot matter: no "
                    "reachable solution violates the user predicate, and a rejection leaves the solution unchanged. "
                    "Tie: generated stop-, vehicle- and solution-level predicates (temporal or not) whose estimate always "
                    "answers 'not violated' are attached to generated models; the predicate is re-evaluated by the "
                    "harness on the solution after every operation. Inherits C07's findings for units of units.",
            "note": TB_COMMON + " Solution-level predicates are covered by the differential only (the engine model has "
                    "stop- and vehicle-level checks).",
            "technique": "Lean 4 proof (engine invariant with an arbitrary check) + user-predicate differential on the real code",
            "design_ref": "DESIGN.md §5 C19",
        },
        "lean_props": ["C19", "C03I", "EngineThms"],
        "facts": ["ShapeFacts"],
        "streams": [HISTUC, INIT],
    },
    "C20": {
        "claim": {
            "text": "Arithmetic of the projection, for every route and objective: the formatter's derived "
                    "route_waiting_duration (route − travel − stops) equals the sum of the stops' waiting durations "
                    "whenever the legs chain (whole seconds) and is never negative; cumulative distances are prefix sums "
                    "ending in the route total; base × factor = value. 'Every stop exactly once' follows the "
                    "bookkeeping invariant (C08) on the sub-alphabet where it holds; FALSE in general — counterexample "
                    "theorem for the half planned group (finding E2: a stop printed nowhere / twice). That the Go "
                    "formatter IS this projection is the tie: the fmt stream formats the last solution of generated "
                    "cases (with/without start/end locations and start times, alternates, groups, custom data on stops, "
                    "alternates and vehicles), parses the JSON back and compares every field with the Solution object "
                    "and the input (custom data by JSON equality). Repaired: alternates lost custom_data (E9).",
            "note": TB_COMMON + " check.Format and the CLI wrapper add statistics around this block; they are not compared.",
            "technique": "Lean 4 proof (projection arithmetic, partial + counterexample for exactly-once) + field-by-field output differential",
            "design_ref": "DESIGN.md §5 C20",
        },
        "lean_props": ["C20", "C08"],
        "streams": [{"name": "fmt", "corpus": True}, HIST, HISTUC],
    },
}

NOT_APPLICABLE = {}
