"""Per-property configuration of tools/check: which Lean property files carry the theorems,
which regenerated fact theorems are re-checked, which harness streams are run and how their
answers are compared with the Lean model's."""

PROPS = {
    "C17": {
        "lean_props": ["C17"],
        "streams": [{"name": "td", "tol": 1e-9}],
        "trusted": ["float64 rounding in ValueAtValue is outside the model: code and model are compared "
                    "with relative tolerance 1e-9, property clauses on the code's values with 1e-6"],
        "assumptions": ["frames of zero length are excluded (factory/validate.go rejects them)",
                        "expressions are constants per (vehicle type, from, to); the theorems fix one triple"],
    },
}
