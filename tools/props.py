"""Per-property configuration of tools/check: which Lean property files carry the theorems,
which regenerated fact theorems are re-checked, which harness streams are run and how their
answers are compared with the Lean model's."""

PROPS = {
    "C17": {
        "claim": {
            "text": "Lean 4 theorems over every rational departure time, every chain SetExpression can build and every "
                    "non-negative duration table: ValueAtValue is total, non-negative, first-in-first-out, equals the "
                    "element's duration for a trip that fits inside one element, equals the default after the last "
                    "frame / without frames; SetExpression (as repaired) only accepts intervals that keep the chain "
                    "sorted, contiguous and alternating. The model is tied to the Go by a differential stream "
                    "(API and JSON routes, dense grids and every frame boundary) replayed through the compiled model.",
            "note": "Trusted: Lean kernel; axioms propext, Classical.choice, Quot.sound; the hand-written model "
                    "NR.TimeDep (tied, not verified); float64 rounding is outside the model (tolerance 1e-9).",
            "technique": "Lean 4 proof (induction over the element chain, ordered-field reasoning over Rat) + differential correspondence check",
            "design_ref": "DESIGN.md §5 C17, §3.5",
        },
        "lean_props": ["C17"],
        "streams": [{"name": "td", "tol": 1e-9}],
        "trusted": ["float64 rounding in ValueAtValue is outside the model: code and model are compared "
                    "with relative tolerance 1e-9, property clauses on the code's values with 1e-6"],
        "assumptions": ["frames of zero length are excluded (factory/validate.go rejects them)",
                        "expressions are constants per (vehicle type, from, to); the theorems fix one triple"],
    },
}

NOT_APPLICABLE = {}
